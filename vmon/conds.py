"""Shared single-object conditions (used by contracts and by property workloads)."""
import numpy as np


def eps_of(dtype):
    return float(np.finfo(np.float32 if np.dtype(dtype) in (np.dtype('float32'), np.dtype('complex64')) else np.float64).eps)


def check_affiliation(R, monitor, g, shape=None, eps=0.0, mask=None, key='affiliation', prop='C01',
                      normalised=True, where='', active=None):
    """Validity of a class-affiliation array (C01 clause 1). Returns True if all conditions hold."""
    ok = True
    g = np.asarray(g)
    if shape is not None:
        ok &= R.check(monitor, tuple(g.shape) == tuple(shape), f'{key}/shape', f'{where} shape {g.shape} != documented {tuple(shape)}', prop=prop)
        if tuple(g.shape) != tuple(shape):
            return False
    fin = np.isfinite(g).all()
    ok &= R.check(monitor, fin, f'{key}/nonfinite', f'{where} {int((~np.isfinite(g)).sum())} non-finite entries', prop=prop)
    if not fin:
        return False
    K = g.shape[-2]
    lo, hi = float(g.min()) if g.size else 0.0, float(g.max()) if g.size else 0.0
    ok &= R.check(monitor, lo >= 0.0 and hi <= 1.0 + 4 * eps_of(g.dtype), f'{key}/range', f'{where} min={lo} max={hi}', prop=prop, lo=lo, hi=hi)
    if normalised:
        s = g.sum(axis=-2)
        tol = K * eps + 16 * K * eps_of(g.dtype)
        if active is not None and mask is None:
            # classes that can receive mass at all (weight > 0); a column without any is all-zero
            act = np.broadcast_to(active, g.shape).any(axis=-2)
            dev = float(np.abs(s[act] - 1).max()) if act.any() else 0.0
            dead = float(np.abs(s[~act]).max()) if (~act).any() else 0.0
            ok &= R.check(monitor, dev <= tol, f'{key}/sum', f'{where} |sum_k-1| max {dev:.3e} > {tol:.1e}', prop=prop, dev=dev)
            ok &= R.check(monitor, dead <= K * eps * (1 + 1e-6), f'{key}/zero-prior-column', f'{where} column without prior mass sums to {dead:.3e}', prop=prop, dev=dead)
        elif mask is not None:
            m = np.broadcast_to(mask, g.shape)
            if active is not None:
                m = m & np.broadcast_to(active, g.shape)
            anyact = m.any(axis=-2)
            dev_act = np.abs(s[anyact] - 1).max() if anyact.any() else 0.0
            # all-inactive columns: exactly zero (clipped: eps per class)
            dead = np.abs(s[~anyact]).max() if (~anyact).any() else 0.0
            ok &= R.check(monitor, dev_act <= tol, f'{key}/sum', f'{where} |sum_k-1| max {dev_act:.3e} > {tol:.1e}', prop=prop, dev=float(dev_act))
            ok &= R.check(monitor, dead <= K * eps * (1 + 1e-6), f'{key}/mask-all-inactive', f'{where} all-inactive column sums to {dead:.3e}', prop=prop, dev=float(dead))
            off = np.abs(g[~m]).max() if (~m).any() else 0.0
            ok &= R.check(monitor, off <= eps * (1 + 1e-6), f'{key}/mask-leak', f'{where} masked entry {off:.3e} > eps {eps}', prop=prop, leak=float(off))
        else:
            dev = float(np.abs(s - 1).max()) if s.size else 0.0
            ok &= R.check(monitor, dev <= tol, f'{key}/sum', f'{where} |sum_k-1| max {dev:.3e} > {tol:.1e}', prop=prop, dev=dev)
    return bool(ok)


def is_perm_columns(mapping):
    """mapping (K, *F): every column a permutation of 0..K-1."""
    mapping = np.asarray(mapping)
    K = mapping.shape[0]
    srt = np.sort(mapping, axis=0)
    ref = np.arange(K).reshape((K,) + (1,) * (mapping.ndim - 1))
    return bool((srt == ref).all())

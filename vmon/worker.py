"""Worker process: runs one shard of a property's cases under the monitors."""
import argparse
import importlib
import json
import os
import signal
import sys
import time
import traceback


class CaseTimeout(Exception):
    pass


def _alarm(signum, frame):
    raise CaseTimeout()


def main(argv=None):
    ap = argparse.ArgumentParser()
    ap.add_argument('--prop', required=True)
    ap.add_argument('--tier', default='quick')
    ap.add_argument('--seed', type=int, default=0)
    ap.add_argument('--shard', type=int, default=0)
    ap.add_argument('--nshards', type=int, default=1)
    ap.add_argument('--out', required=True)
    ap.add_argument('--replay', default=None)
    a = ap.parse_args(argv)

    repo = os.environ.get('VERIF_REPO', '/repo')
    if repo not in sys.path:
        sys.path.insert(0, repo)
    os.environ['PB_BSS_VERIF'] = '1'

    import warnings
    warnings.filterwarnings('ignore')
    import numpy as np  # noqa

    from vmon.rec import Recorder, jsonable
    from vmon import instr

    mod = importlib.import_module('vmon.props.' + a.prop.lower())
    R = Recorder(a.prop)
    t0 = time.time()

    import pb_bss  # noqa  (from $REPO)
    assert os.path.realpath(pb_bss.__file__).startswith(os.path.realpath(repo)), pb_bss.__file__

    if a.replay:
        rp = json.load(open(a.replay))
        cases = [(0, rp['case'])]
    else:
        plan = mod.plan(a.tier, a.seed)
        cases = [(i, c) for i, c in enumerate(plan) if i % a.nshards == a.shard]

    ctx = instr.install(R, mod)
    case_timeout = getattr(mod, 'CASE_TIMEOUT', {'quick': 120, 'thorough': 600})[a.tier]
    signal.signal(signal.SIGALRM, _alarm)

    statuses = {'held': 0, 'violated': 0, 'undecided': 0, 'timeout': 0, 'error': 0}
    errors = []
    with open(a.out + '.progress', 'w') as prog:
        for idx, case in cases:
            R.begin_case(case)
            signal.alarm(case_timeout)
            try:
                mod.run_case(case, R)
                signal.alarm(0)
                st = R.end_case()
            except CaseTimeout:
                R.end_case()
                st = 'timeout'
            except Exception:
                signal.alarm(0)
                R.end_case()
                st = 'error'
                if len(errors) < 5:
                    errors.append(dict(case=jsonable(case), tb=traceback.format_exc()[-3000:]))
            finally:
                signal.alarm(0)
            statuses[st] += 1
            prog.write(f'{idx} {st}\n')
            prog.flush()

    out = R.dump()
    rep = instr.report(ctx)
    # named source lines the property requires its workload to reach (DESIGN 3.4): resolved by pattern, not by number
    import re
    named = {}
    for name, (rel, pattern) in getattr(mod, 'REACH_REQUIRED', {}).items():
        try:
            src = open(os.path.join(repo, 'pb_bss', rel)).read().split('\n')
        except OSError:
            named[name] = 0
            continue
        nums = [i + 1 for i, l in enumerate(src) if re.search(pattern, l)]
        named[name] = int(any((rel, n) in ctx.lines for n in nums)) if nums else 0
    rep['reach_named'] = named
    out.update(statuses=statuses, errors=errors, n_cases=len(cases), wall_s=time.time() - t0, instr=rep)
    with open(a.out, 'w') as f:
        json.dump(out, f)
    return 0


if __name__ == '__main__':
    sys.exit(main())

"""Independent M-step estimators (C08 oracles), written with explicit sums."""
import math

import numpy as np
import scipy.special

from vmon import models, oracles

TINY = float(np.finfo(np.float64).tiny)


# ---------------------------------------------------------------------------
# mixture weights
# ---------------------------------------------------------------------------

def weights(aff, sal, wca, kind):
    """documented mixture-weight update. aff (..., K, N), sal (..., N) or None."""
    a = np.asarray(aff, dtype=np.float64)
    K = a.shape[-2]
    if sal is not None:
        a = a * np.asarray(sal, dtype=np.float64)[..., None, :]
    if kind in models.INTEGRATION:
        axes = tuple(wca)
        if -2 in axes:
            return np.asarray(1.0 / K)
        w = a.sum(axis=axes, keepdims=True)
        with np.errstate(invalid='ignore', divide='ignore'):
            w = w / w.sum(axis=-2, keepdims=True)
        return np.squeeze(w, axis=axes)
    if isinstance(wca, int):
        if wca % a.ndim - a.ndim == -2:
            return np.full((K, 1), 1.0 / K)
        axes = (wca,)
    else:
        axes = tuple(wca)
    w = a.sum(axis=axes, keepdims=True)
    tot = w.sum(axis=-2, keepdims=True)
    w = w / np.where(tot == 0, 1.0, tot)
    if -2 in [ax % a.ndim - a.ndim for ax in axes]:
        w = w / K
    return w


# ---------------------------------------------------------------------------
# cACG
# ---------------------------------------------------------------------------

def cacg_step(z, g, q, norm='eigenvalue', floor=1e-10):
    """one Tyler/cACG update. z (..., N, D) unit norm observations, g (..., K, N) observation weights,
    q (..., K, N) quadratic forms of the preceding E-step. Returns covariance (..., K, D, D) after the
    documented normalisation and flooring, plus (eigenvectors, eigenvalues)."""
    D = z.shape[-1]
    q = np.maximum(q, 10 * TINY)
    zz = np.einsum('...nd,...ne->...nde', z, z.conj())
    B = D * np.einsum('...kn,...nde->...kde', g / q, zz)
    den = np.maximum(g.sum(-1), TINY)[..., None, None]
    B = B / den
    B = (B + np.swapaxes(B.conj(), -1, -2)) / 2
    if norm == 'trace':
        tr = np.einsum('...dd->...', B).real[..., None, None]
        B = B / np.maximum(tr, TINY)
    lam, U = np.linalg.eigh(B)
    if norm == 'eigenvalue':
        lam = lam / np.maximum(lam.max(-1, keepdims=True), TINY)
        lam = np.maximum(lam, floor)
    else:
        lam = np.maximum(lam, lam.max(-1, keepdims=True) * floor)
    cov = np.einsum('...ab,...b,...cb->...ac', U, lam, U.conj())
    return cov, U, lam


def cacg_quadratic_form(z, cov):
    """z^H B^-1 z for z (..., N, D) and cov (..., K, D, D) -> (..., K, N)"""
    Binv = np.linalg.inv(cov)
    q = np.einsum('...nd,...kde,...ne->...kn', z.conj(), Binv, z).real
    return np.maximum(np.abs(q), TINY)


# ---------------------------------------------------------------------------
# Watson
# ---------------------------------------------------------------------------

def watson_ratio(kappa, D):
    """largest eigenvalue of E[z z^H] for complex Watson: E[t], t=|w^H z|^2 with density ~ e^{k t}(1-t)^{D-2}
    = 1 - (D-1) P(D, k) / (k P(D-1, k)), P the regularised lower incomplete gamma (no hyp1f1)."""
    kappa = np.asarray(kappa, dtype=np.float64)
    k = np.where(kappa > 1e-8, kappa, 1e-8)
    eu = (D - 1) * scipy.special.gammainc(D, k) / (k * scipy.special.gammainc(D - 1, k))
    return np.where(kappa > 1e-8, 1 - eu, 1.0 / D)


def scatter(z, g):
    """sum_n g_n z_n z_n^H / sum_n g_n ; z (..., N, D), g (..., K, N) -> (..., K, D, D)"""
    zz = np.einsum('...nd,...ne->...nde', z, z.conj())
    S = np.einsum('...kn,...nde->...kde', g, zz)
    return S / g.sum(-1)[..., None, None]


# ---------------------------------------------------------------------------
# Gaussian / vMF
# ---------------------------------------------------------------------------

def gaussian(x, g, ctype):
    """weighted mean and pooled weighted scatter; x (..., N, D), g (..., K, N)."""
    den = g.sum(-1)
    mean = np.einsum('...kn,...nd->...kd', g, x) / den[..., None]
    diff = x[..., None, :, :] - mean[..., :, None, :]          # (..., K, N, D)
    if ctype == 'full':
        cov = np.einsum('...kn,...knd,...kne->...kde', g, diff, diff) / den[..., None, None]
    elif ctype == 'diagonal':
        cov = np.einsum('...kn,...knd->...kd', g, diff ** 2) / den[..., None]
    else:
        cov = np.einsum('...kn,...knd->...k', g, diff ** 2) / (den * x.shape[-1])
    return mean, cov


def vmf(x, g, kmin, kmax):
    """x unit-norm (..., N, D), g (..., K, N)."""
    D = x.shape[-1]
    r = np.einsum('...kn,...nd->...kd', g, x)
    nrm = np.linalg.norm(r, axis=-1)
    mean = r / np.maximum(nrm, TINY)[..., None]
    rbar = np.minimum(nrm / g.sum(-1), 1.0)      # the mean resultant length cannot exceed one (rounding may)
    with np.errstate(divide='ignore', invalid='ignore'):
        kappa = (rbar * D - rbar ** 3) / (1 - rbar ** 2)
    return mean, np.clip(kappa, kmin, kmax), rbar

"""Scenario = (model kind, data, start, trainer options) built deterministically from a JSON
case descriptor. Shared by the mixture-model properties."""
import numpy as np

from vmon import gen, models

DT = {'c128': np.complex128, 'c64': np.complex64, 'f64': np.float64, 'f32': np.float32}


class Scenario:
    pass


def _tuple_axis(a):
    if isinstance(a, list):
        return tuple(a)
    return a


def make_aligner(name):
    if not name:
        return None
    from pb_bss import permutation_alignment as pa
    if name == 'greedy-cos':
        return pa.GreedyPermutationAlignment(similarity_metric='cos')
    if name == 'greedy-euclidean':
        return pa.GreedyPermutationAlignment(similarity_metric='euclidean')
    if name.startswith('dhtv'):
        # dhtv:<stft_size>:<start>:<width>:<shift>
        _, n, st, w, sh = name.split(':')
        return pa.DHTVPermutationAlignment(stft_size=int(n), segment_start=int(st), segment_width=int(w),
                                           segment_shift=int(sh), main_iterations=5, sub_iterations=2)
    raise ValueError(name)


def relayout(data, layout):
    """same values, different memory layout of the observation arrays: Fortran order or a strided (non-contiguous) view"""
    if layout == 'c':
        return
    for k in ('y', 'e'):
        if k in data and isinstance(data[k], np.ndarray) and data[k].ndim >= 2:
            x = data[k]
            if layout == 'f':
                data[k] = np.asfortranarray(x)
            elif layout == 'tview':
                # a (T, F, E) network output transposed to (F, T, E), or leading axes swapped: non-contiguous view
                if x.ndim >= 3:
                    data[k] = np.ascontiguousarray(np.swapaxes(x, 0, -2)).swapaxes(0, -2)
                else:
                    big = np.zeros(x.shape[:-1] + (2 * x.shape[-1],), dtype=x.dtype)
                    big[..., ::2] = x
                    data[k] = big[..., ::2]


def build(case):
    rng = gen.rng_of(case)
    s = Scenario()
    kind = s.kind = case['kind']
    lead = tuple(case.get('lead', ()))
    K, N, D = case['K'], case['N'], case['D']
    real = kind in models.REAL
    dt = DT[case.get('dtype', 'f64' if real else 'c128')]
    s.data = models.make_data(rng, kind, lead, K, N, D, cls=case.get('cls', 'gauss'), dtype=dt, E=case.get('E'), spread=case.get('spread', 3.0), offset=case.get('offset', 0.0))
    if case.get('level') and case['level'] != 1.0:
        # overall level of the real-valued data (Gaussian models are equivariant to it; absolute regularisers are not)
        key = 'e' if 'e' in s.data else 'y'
        if kind in models.REAL or 'e' in s.data:
            s.data[key] = (s.data[key] * case['level']).astype(s.data[key].dtype)
    if case.get('norms') == 'subunit' and kind not in models.REAL:
        # directional observations that are almost, but not exactly, normalised (lengths 0.55 .. 1): whoever skips the normalisation
        # "because predict normalises anyway" still gets moderate numbers - no clipping or flooring hides it
        yy = s.data['y']
        nrm = np.linalg.norm(yy, axis=-1, keepdims=True)
        s.data['y'] = (yy / np.where(nrm > 0, nrm, 1.0) * np.random.default_rng([*case['rs'], 31]).uniform(0.55, 1.0, size=nrm.shape)).astype(yy.dtype)
    if case.get('e_dtype') == 'f32' and 'e' in s.data:
        s.data['e'] = s.data['e'].astype(np.float32)       # mixed precision: double-precision STFT with single-precision network embeddings
    relayout(s.data, case.get('layout', 'c'))
    s.K, s.N, s.D, s.lead = K, N, D, lead
    aff_shape = (*lead, K, N)
    s.aff_shape = aff_shape
    # start ----------------------------------------------------------------
    init = case.get('init', 'dirichlet:1')
    s.num_classes = None
    s.np_seed = None
    if init == 'num_classes':
        s.init = None
        s.num_classes = K
        s.np_seed = int(case['rs'][-1]) % (2 ** 31)
    elif init.startswith('dirichlet'):
        s.init = gen.dirichlet_init(rng, lead, K, N, alpha=float(init.split(':')[1]))
    elif init.startswith('onehot'):
        s.init, _ = gen.onehot_init(rng, lead, K, N)
    elif init.startswith('blur'):
        s.init, _ = gen.onehot_init(rng, lead, K, N, blur=float(init.split(':')[1]))
    elif init == 'indep':
        # class masks estimated independently of each other (or clipped): positive class mass everywhere, columns do not sum to one
        s.init = rng.uniform(0.05, 1.0, size=(*lead, K, N))
    elif init.startswith('planted'):
        # informed start: the planted labels of the data, blurred - EM converges within a few iterations from here, which is
        # where stopping rules and other shortcuts near convergence act
        b = float(init.split(':')[1])
        lab = np.asarray(s.data['lab'])
        onehot = (lab[..., None, :] == np.arange(K)[:, None]).astype(float)
        s.init = (1 - b) * onehot + b * gen.dirichlet_init(rng, lead, K, N, alpha=1.0)
    elif init.startswith('singleton'):
        # singleton leading axes, to be broadcast by the library
        s.init = gen.dirichlet_init(rng, (1,) * len(lead), K, N, alpha=1.0)
    else:
        raise ValueError(init)
    # options --------------------------------------------------------------
    o = dict(case.get('opts', {}))
    opts = {}
    copts = dict(K=K, aff_shape=aff_shape)   # what the armed contracts need to know
    tkw = {}
    if 'wca' in o:
        opts['weight_constant_axis'] = _tuple_axis(o['wca'])
        copts['weight_constant_axis'] = opts['weight_constant_axis']
        if o.get('wca_int') and kind not in models.INTEGRATION and len(o['wca']) == 1:
            opts['weight_constant_axis'] = int(o['wca'][0])        # the plain-int spelling of a single tied axis (as the repository's own tests use it)
            if o.get('wca_pos'):
                opts['weight_constant_axis'] %= len(aff_shape)      # "or the positive counterpart": the same axis counted from the front
            copts['wca_given'] = opts['weight_constant_axis']
    else:
        copts['weight_constant_axis'] = (-1,)
    sal = o.get('saliency', 'none')
    if sal == 'zeros' and -1 not in copts['weight_constant_axis']:
        # frame-dependent weights: a frame with zero saliency has zero prior mass for every class, which is outside "every class
        # has non-zero mass" (also enforced by sample_opts; repeated here because lanes override the tying after sampling)
        sal = 'pos'
    sal_shape = (*lead, N)
    if sal == 'none':
        s.saliency = None
    elif sal == 'pos':
        s.saliency = rng.uniform(0.1, 1.0, size=sal_shape)
        if lead and o.get('saliency_slice_scale'):
            s.saliency = s.saliency * 10 ** rng.uniform(-1, 1, size=(*lead, 1))    # slices with different total saliency
    elif sal == 'wide':
        s.saliency = 10 ** rng.uniform(-2, 0, size=sal_shape)
        if lead and o.get('saliency_slice_scale') == 'all':
            s.saliency = s.saliency * 10 ** rng.uniform(-1, 1, size=(*lead, 1))
    elif sal == 'tiny':
        # weights of the magnitude of the power of a quiet recording: only relative weights may matter
        s.saliency = rng.uniform(0.1, 1.0, size=sal_shape) * 10 ** rng.uniform(-14, -9)
    elif sal == 'zeros':
        s.saliency = rng.uniform(0.1, 1.0, size=sal_shape)
        z = rng.uniform(size=sal_shape) < 0.2
        s.saliency[z] = 0.0
    elif sal == 'int':
        s.saliency = rng.integers(1, 5, size=sal_shape).astype(np.float64)
    else:
        raise ValueError(sal)
    if s.saliency is not None and sal == 'zeros' and s.init is not None:
        # every class keeps saliency-weighted mass in every slice: un-zero the frame where the class is strongest
        ini = np.broadcast_to(s.init, aff_shape)
        for idx in np.ndindex(*lead):
            for k in range(K):
                n_ = int(np.argmax(ini[idx][k]))
                if s.saliency[idx][n_] == 0:
                    s.saliency[idx][n_] = 0.5
    if s.saliency is not None:
        opts['saliency'] = s.saliency
    copts['saliency'] = s.saliency
    s.mask = None
    if o.get('mask'):
        m = rng.uniform(size=aff_shape) < 0.75
        # some frames with every source inactive, but every class active somewhere
        dead = rng.uniform(size=(*lead, 1, N)) < 0.1
        m = m & ~dead
        for idx in np.ndindex(*lead):
            for k in range(K):
                if not m[idx][k].any():
                    m[idx][k, rng.integers(N)] = True
        s.mask = m
        opts['source_activity_mask'] = m
        if s.init is not None:
            s.init = np.where(m, s.init, 0.0)
            tot = s.init.sum(-2, keepdims=True)
            # a frame with active sources keeps positive mass (uniform over the active ones if the
            # start put everything on a masked source)
            s.init = np.where((tot == 0) & m, 1.0, s.init)
            tot = s.init.sum(-2, keepdims=True)
            s.init = s.init / np.where(tot > 0, tot, 1.0)
    for name in ('hermitize', 'covariance_norm', 'eigenvalue_floor', 'affiliation_eps', 'covariance_type',
                 'spatial_weight', 'spectral_weight', 'inline_permutation_alignment', 'min_concentration',
                 'max_concentration'):
        if name in o:
            if name == 'max_concentration' and kind in ('cwmm', 'cbmm'):
                tkw['max_concentration'] = o[name]
            else:
                opts[name] = o[name]
            copts[name] = o[name]
    if kind in ('cacgmm', 'gcacgmm', 'vmfcacgmm'):
        copts.setdefault('affiliation_eps', 1e-10)
        copts.setdefault('eigenvalue_floor', 1e-10)
        copts.setdefault('covariance_norm', 'eigenvalue')
    else:
        copts.setdefault('affiliation_eps', 0.0)
    if kind == 'cbmm':
        copts.setdefault('max_concentration', np.inf)
    if o.get('trainer_dimension') and kind in ('cwmm', 'cbmm'):
        tkw['dimension'] = D
    if o.get('aligner'):
        opts['inline_permutation_aligner'] = make_aligner(o['aligner'])
    if o.get('fixed_covariance'):
        ct = o.get('covariance_type', 'full' if kind == 'gmm' else 'spherical')
        Dd = s.data['e'].shape[-1] if kind in models.INTEGRATION else D
        clead = () if kind in models.INTEGRATION else lead
        if ct == 'full':
            fc = gen.hpd(rng, Dd, cond=5.0, lead=(*clead, K), real=True)
        elif ct == 'diagonal':
            fc = rng.uniform(0.5, 2.0, size=(*clead, K, Dd))
        else:
            fc = rng.uniform(0.5, 2.0, size=(*clead, K))
        opts['fixed_covariance'] = fc
    copts['mask'] = s.mask
    copts['aligned'] = bool(o.get('aligner'))
    copts['singleton_init'] = init.startswith('singleton')
    s.opts, s.tkw, s.copts = opts, tkw, copts
    s.iterations = case.get('iters', 3)
    if init in ('onehot:bool', 'onehot:int') and s.init is not None and np.isin(s.init, (0, 1)).all():
        # hard starts as label code produces them (labels_to_one_hot returns a boolean array by default)
        s.init = s.init.astype(bool if init.endswith('bool') else np.int64)
    return s


def fit(s, iterations=None, init='default', **override):
    if s.np_seed is not None:
        np.random.seed(s.np_seed)
    opts = dict(s.opts)
    opts.update(override)
    return models.fit(s.kind, s.data, init=s.init if init == 'default' else init, num_classes=s.num_classes if init == 'default' else None,
                      iterations=iterations or s.iterations, tkw=s.tkw, **opts)


def fit_predict(s, iterations=None, **override):
    if s.np_seed is not None:
        np.random.seed(s.np_seed)
    opts = dict(s.opts)
    opts.update(override)
    return models.fit_predict(s.kind, s.data, init=s.init, num_classes=s.num_classes,
                              iterations=iterations or s.iterations, tkw=s.tkw, **opts)


def class_mass(s, events):
    """min over iterations>=1, slices and classes of the (saliency weighted) class mass relative to N."""
    worst = np.inf
    first_bad = None
    for ev in events:
        a = ev['affiliation']
        if a is None:
            continue
        tot = float(a.shape[-1])
        if s.saliency is not None:
            a = a * s.saliency[..., None, :]
            tot = np.sum(s.saliency, axis=-1)[..., None]       # relative to the weight there is to share (the level of the saliency is free)
        m = a.sum(axis=-1)
        with np.errstate(all='ignore'):
            mn = float(np.nan_to_num(m / np.maximum(tot, np.finfo(float).tiny), nan=0.0).min())
        if mn < worst:
            worst = mn
        if mn < 1e-12 and first_bad is None:
            first_bad = ev['iteration']
    return worst, first_bad


# ---------------------------------------------------------------------------
# sampling of configurations (used by the plan() functions)
# ---------------------------------------------------------------------------

WCA = {
    'plain_lead': [[-1], [-3], [-3, -1], [-2]],
    'plain_nolead': [[-1], [-2]],
    # (-2,) alone is not among the documented options of the integration models (their predict raises
    # IndexError for it); the documented class-tied option is (-3, -2, -1)
    'integration': [[-1], [-3], [-3, -1], [-3, -2, -1]],
}


def sample_opts(rng, kind, lead, full=True):
    """Random trainer options for a kind (JSON-able)."""
    o = {}
    pick = lambda xs: xs[int(rng.integers(len(xs)))]
    if kind in models.INTEGRATION:
        o['wca'] = pick(WCA['integration'])
    elif len(lead) >= 1:
        o['wca'] = pick(WCA['plain_lead'])
    else:
        o['wca'] = pick(WCA['plain_nolead'])
    o['saliency'] = pick(['none', 'none', 'pos', 'zeros', 'int'])
    if o['saliency'] == 'zeros' and -1 not in o['wca']:
        # frame-dependent weights: a frame with zero saliency has zero prior mass for every class,
        # which is outside "every class has non-zero mass"
        o['saliency'] = 'pos'
    if kind in ('cacgmm', 'gcacgmm', 'vmfcacgmm'):
        o['covariance_norm'] = pick(['eigenvalue', 'eigenvalue', 'trace', False])
        o['hermitize'] = pick([True, True, False])
        o['eigenvalue_floor'] = pick([1e-10, 1e-6])
        o['affiliation_eps'] = pick([0.0, 1e-10, 1e-3])
    if kind == 'cacgmm':
        o['mask'] = bool(rng.uniform() < 0.3)
        if len(lead) == 1 and o['wca'] in ([-3], [-3, -1]) and lead[0] % 2 == 1 and rng.uniform() < 0.5:
            o['aligner'] = pick(['greedy-cos', 'greedy-euclidean'])
    if kind == 'cwmm':
        if len(lead) == 1 and o['wca'] in ([-3], [-3, -1]) and lead[0] % 2 == 1 and rng.uniform() < 0.4:
            o['aligner'] = pick(['greedy-cos', 'greedy-euclidean'])
        o['max_concentration'] = pick([500, 500, 100])
    if kind == 'cbmm':
        o['affiliation_eps'] = pick([0.0, 1e-10, 1e-3])
        o['max_concentration'] = pick([500, 1000])
    if kind in ('cwmm', 'cbmm'):
        o['trainer_dimension'] = bool(rng.uniform() < 0.3)
    if kind in ('gmm', 'gcacgmm'):
        o['covariance_type'] = pick(['full', 'diagonal', 'spherical'])
        if rng.uniform() < 0.15:
            o['fixed_covariance'] = True
    if kind in ('vmfmm', 'vmfcacgmm'):
        o['max_concentration'] = pick([500, 50])
        o['min_concentration'] = pick([1e-10, 1e-3])
    if kind in models.INTEGRATION:
        sw = pick([[1.0, 1.0], [0.5, 2.0], [1.0, 0.0], [0.0, 1.0]])
        o['spatial_weight'], o['spectral_weight'] = sw
        # with one stream switched off every permutation has the same criterion value: the choice is a rounding-level tie
        o['inline_permutation_alignment'] = bool(rng.uniform() < 0.3) and 0.0 not in sw
    if kind not in models.INTEGRATION and len(o['wca']) == 1 and rng.uniform() < 0.3:
        o['wca_int'] = True
        o['wca_pos'] = bool(rng.uniform() < 0.4)
    # a quarter of the time an option is not passed at all: the library's own default applies (the monitors know the documented
    # defaults), so that a changed default or two entry points with different defaults are exercised too
    for name in ('covariance_norm', 'hermitize', 'eigenvalue_floor', 'affiliation_eps', 'max_concentration', 'min_concentration', 'covariance_type'):
        if name in o and rng.uniform() < 0.25:
            del o[name]
    return o

"""Parent process: shards a property's plan over worker subprocesses, merges their
recorders, classifies violations against known_findings.json, writes evidence and
replays, prints the verdict lines and returns the exit code (DESIGN 2, 6)."""
import fnmatch
import hashlib
import importlib
import json
import os
import shutil
import subprocess
import sys
import time

ROOT = os.path.dirname(os.path.dirname(os.path.abspath(__file__)))
PY = '/venv/bin/python'


def _env(repo):
    env = dict(os.environ)
    env.update(
        PB_BSS_VERIF='1', PYTHONHASHSEED='0', PYTHONDONTWRITEBYTECODE='1',
        OMP_NUM_THREADS='1', OPENBLAS_NUM_THREADS='1', MKL_NUM_THREADS='1',
        NUMEXPR_NUM_THREADS='1', VERIF_REPO=repo,
        PYTHONPATH=repo + os.pathsep + ROOT,
    )
    return env


def load_known():
    p = os.path.join(ROOT, 'known_findings.json')
    if not os.path.exists(p):
        return []
    return json.load(open(p)).get('findings', [])


def classify(viol, known):
    for k in known:
        if k.get('status') != 'open':
            continue
        if k['property'] == viol['prop'] and fnmatch.fnmatchcase(viol['key'], k['key']):
            return k
    return None


def merge(dumps):
    out = dict(monitors={}, counters={}, nontrivial=set(), samples=[], violations=[],
               viol_counts={}, undecided_reasons={},
               statuses={'held': 0, 'violated': 0, 'undecided': 0, 'timeout': 0, 'error': 0},
               errors=[], n_cases=0, instr={})
    for d in dumps:
        for name, m in d['monitors'].items():
            t = out['monitors'].setdefault(name, dict(seen=0, checked=0, violated=0, undecided=0))
            for k in t:
                t[k] += m[k]
        for k, v in d['counters'].items():
            out['counters'][k] = out['counters'].get(k, 0) + v
        out['nontrivial'].update(d['nontrivial'])
        out['samples'].extend(d['samples'])
        out['violations'].extend(d['violations'])
        for k, v in d['viol_counts'].items():
            out['viol_counts'][k] = out['viol_counts'].get(k, 0) + v
        for k, v in d['undecided_reasons'].items():
            out['undecided_reasons'][k] = out['undecided_reasons'].get(k, 0) + v
        for k, v in d['statuses'].items():
            out['statuses'][k] += v
        out['errors'].extend(d['errors'])
        out['n_cases'] += d['n_cases']
        for k, v in d.get('instr', {}).items():
            if isinstance(v, (int, float)):
                out['instr'][k] = out['instr'].get(k, 0) + v
            elif isinstance(v, dict):
                t = out['instr'].setdefault(k, {})
                for kk, vv in v.items():
                    if isinstance(vv, (int, float)):
                        t[kk] = t.get(kk, 0) + vv
                    else:
                        t[kk] = vv
            elif isinstance(v, list):
                t = out['instr'].setdefault(k, [])
                for x in v:
                    if x not in t:
                        t.append(x)
    return out


def run(prop, tier, seed, replay, jobs):
    t0 = time.time()
    repo = os.environ.get('VERIF_REPO', '/repo')
    mod = importlib.import_module('vmon.props.' + prop.lower())
    work = os.path.join(ROOT, '.work', prop, f'{tier}-{seed}-{os.getpid()}')
    shutil.rmtree(work, ignore_errors=True)
    os.makedirs(work)
    env = _env(repo)

    if replay:
        nshards = 1
    else:
        nshards = max(1, min(jobs, getattr(mod, 'MAX_SHARDS', 16)))
    wt = getattr(mod, 'WORKER_TIMEOUT', {'quick': 900, 'thorough': 7200})[tier]

    procs = []
    for i in range(nshards):
        out = os.path.join(work, f'shard{i}.json')
        cmd = [PY, '-B', '-m', 'vmon.worker', '--prop', prop, '--tier', tier, '--seed', str(seed),
               '--shard', str(i), '--nshards', str(nshards), '--out', out]
        if replay:
            cmd += ['--replay', os.path.abspath(replay)]
        log = open(os.path.join(work, f'shard{i}.log'), 'w')
        procs.append((i, out, subprocess.Popen(cmd, cwd=ROOT, env=env, stdout=log, stderr=subprocess.STDOUT), log))

    dumps = []
    dead = []
    deadline = time.time() + wt
    for i, out, p, log in procs:
        try:
            p.wait(timeout=max(1, deadline - time.time()))
        except subprocess.TimeoutExpired:
            p.kill()
            p.wait()
            dead.append((i, 'worker timeout'))
        log.close()
        if os.path.exists(out):
            dumps.append(json.load(open(out)))
        elif (i, 'worker timeout') not in dead:
            tail = open(os.path.join(work, f'shard{i}.log')).read()[-1500:]
            dead.append((i, f'worker died rc={p.returncode}: {tail}'))

    M = merge(dumps)
    known = load_known()
    new, matched = [], {}
    for v in M['violations']:
        k = classify(v, known)
        if k is None:
            new.append(v)
        else:
            matched.setdefault((k['property'], k['key']), k)
    # violations beyond the stored cap are still counted by key
    new_keys = set()
    for kk, n in M['viol_counts'].items():
        p_, key = kk.split('|', 1)
        if classify(dict(prop=p_, key=key), known) is None:
            new_keys.add(kk)

    # replays
    rdir = os.path.join(ROOT, 'replays', prop)
    replay_paths = []
    if new and not replay:
        os.makedirs(rdir, exist_ok=True)
        seen = set()
        for v in new:
            h = hashlib.sha1(json.dumps([v['prop'], v['key'], v['case']], sort_keys=True).encode()).hexdigest()[:12]
            if (v['prop'], v['key']) in seen and not os.environ.get('VMON_MAXV'):
                continue
            seen.add((v['prop'], v['key']))
            path = os.path.join(rdir, f'{v["prop"]}-{h}.json')
            json.dump(dict(property=prop, owner=v['prop'], key=v['key'], monitor=v['monitor'], msg=v['msg'],
                           case=v['case'], info=v['info'], tier=tier, seed=seed), open(path, 'w'), indent=1)
            replay_paths.append((v, os.path.relpath(path, ROOT)))

    # verdict
    deciding = getattr(mod, 'DECIDING', [])
    min_decided = getattr(mod, 'MIN_DECIDED', {'quick': 1, 'thorough': 1})[tier] if not replay else 0
    reasons = []
    for d in deciding if not replay else []:
        if M['monitors'].get(d, {}).get('checked', 0) == 0:
            reasons.append(f'deciding monitor {d} never evaluated')
    decided = M['statuses']['held'] + M['statuses']['violated']
    if decided < min_decided:
        reasons.append(f'only {decided} cases decided (< {min_decided})')
    if dead:
        reasons.append('; '.join(f'shard {i}: {why[:300]}' for i, why in dead))
    if M['statuses']['error']:
        reasons.append(f"{M['statuses']['error']} cases ended in a harness error")
    req_hook = getattr(mod, 'NEEDS_HOOK', False)
    if req_hook and not replay and M['instr'].get('hook_events', 0) == 0:
        reasons.append('repository hook produced no em_iteration event')
    for name in getattr(mod, 'REACH_REQUIRED', {}) if not replay else []:
        if not M['instr'].get('reach_named', {}).get(name):
            reasons.append(f'named branch never reached by the workload: {name}')
    post = getattr(mod, 'post_verdict', None)
    if post and not replay:
        reasons.extend(post(M, tier) or [])

    if new or new_keys:
        verdict = 'violated'
    elif reasons:
        verdict = 'inconclusive'
    else:
        verdict = 'held'

    wall = time.time() - t0
    nontrivial = len(M['nontrivial'])
    cov = dict(
        evaluations=int(sum(m['checked'] for m in M['monitors'].values())),
        distinct_nontrivial=int(nontrivial),
        rule=getattr(mod, 'RULE', ''),
        samples=M['samples'][:12] or [dict(note='no sample recorded')],
        cases_planned=M['n_cases'], case_status=M['statuses'],
        monitors=M['monitors'], counters=M['counters'],
        undecided_reasons=M['undecided_reasons'],
        instrumentation=M['instr'],
        known_findings_matched=[f'{p}:{k}' for (p, k) in matched],
        verdict=verdict, inconclusive_reasons=reasons,
        repo=repo, shards=nshards,
    )
    if getattr(mod, 'EXHAUSTIVE_NOTE', None):
        cov['exhaustive_subspaces'] = mod.EXHAUSTIVE_NOTE
    tv = M['instr'].get('hook_validated', 0)
    if tv:
        cov['traces_validated_against_impl'] = int(tv)
    ev = dict(property_id=prop, tier=tier, seed=seed, level='exploration', coverage=cov,
              assumptions=getattr(mod, 'ASSUMPTIONS', []), wall_s=round(wall, 2),
              violations=len(new_keys))
    if not replay and not os.environ.get('VERIF_NO_EVIDENCE'):
        os.makedirs(os.path.join(ROOT, 'evidence'), exist_ok=True)
        tmp = os.path.join(ROOT, 'evidence', f'{prop}.json.tmp')
        json.dump(ev, open(tmp, 'w'), indent=1)
        os.replace(tmp, os.path.join(ROOT, 'evidence', f'{prop}.json'))

    # output
    mon = ' '.join(f"{k}={v['checked']}/{v['violated']}v/{v['undecided']}u" for k, v in sorted(M['monitors'].items()))
    print(f'[{prop}] tier={tier} seed={seed} cases={M["n_cases"]} {M["statuses"]} nontrivial={nontrivial} wall={wall:.1f}s')
    print(f'[{prop}] monitors: {mon}')
    for (p_, key), k in matched.items():
        print(f"KNOWN-FINDING: property={p_} {key}: {(k.get('line') or k.get('what', ''))[:220]}")
    for e in M['errors'][:3]:
        print(f'[{prop}] HARNESS-ERROR case={json.dumps(e["case"])[:300]}\n{e["tb"]}')
    if verdict == 'violated':
        for v, path in replay_paths:
            print(f'VIOLATION property={v["prop"]} replay={path} key={v["key"]} monitor={v["monitor"]} {v["msg"][:300]}')
        if replay:
            for v in new:
                print(f'VIOLATION property={v["prop"]} replay={replay} key={v["key"]} monitor={v["monitor"]} {v["msg"][:300]}')
        if not replay_paths and not replay:
            for kk in sorted(new_keys):
                print(f'VIOLATION property={kk.split("|")[0]} replay=none key={kk.split("|", 1)[1]}')
        shutil.rmtree(work, ignore_errors=True)
        return 1
    if verdict == 'inconclusive':
        print(f'INCONCLUSIVE property={prop} reason={" | ".join(reasons)[:1500]}')
        return 2
    shutil.rmtree(work, ignore_errors=True)
    print(f'[{prop}] HELD on everything explored')
    return 0

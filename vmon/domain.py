"""C09: parameter-domain conditions on fitted model objects (armed on every hook event and on
every model a workload obtains)."""
import numpy as np

EPS = float(np.finfo(np.float64).eps)


def _finite_fields(R, monitor, model, where, prefix=''):
    ok = True
    for k in model.__dataclass_fields__:
        v = getattr(model, k)
        if hasattr(v, '__dataclass_fields__'):
            ok &= _finite_fields(R, monitor, v, where, prefix + k + '.')
        elif isinstance(v, (np.ndarray, float, int, np.floating)) and not isinstance(v, bool):
            a = np.asarray(v)
            if a.dtype.kind in 'fc':
                ok &= R.check(monitor, np.isfinite(a).all(), f'domain/nonfinite/{type(model).__name__}.{k}',
                              f'{where}: {prefix}{k} has non-finite entries', prop='C09')
    return ok


def check_weight(R, monitor, model, opts, where):
    w = getattr(model, 'weight', None)
    if w is None:
        return
    weps = float(np.finfo(np.asarray(w).dtype).eps) if np.asarray(w).dtype.kind == 'f' else EPS
    w = np.asarray(w, dtype=np.float64)
    name = type(model).__name__
    eps_aff = opts.get('affiliation_eps') or 0.0
    integration = name in ('GCACGMM', 'VMFCACGMM')
    K = opts.get('K')
    if not np.isfinite(w).all():
        return
    R.check(monitor, (w >= 0).all(), f'domain/weight-negative/{name}', f'{where}: negative mixture weight {w.min()}', prop='C09')
    wca = opts.get('weight_constant_axis')
    if integration:
        axes = tuple(getattr(model, 'weight_constant_axis'))
        if -2 in axes:
            if K:
                R.check(monitor, w.shape == () and abs(float(w) - 1 / K) < 4 * weps, f'domain/weight-uniform/{name}', f'{where}: tied-over-classes weight is {w} not 1/K', prop='C09')
            return
        # squeezed: class axis position = index of -2 among remaining axes
        rem = [a for a in (-3, -2, -1) if a not in axes]
        cax = rem.index(-2)
        s = w.sum(axis=cax)
        Kc = w.shape[cax]
    else:
        if w.ndim < 2:
            R.fail(monitor, f'domain/weight-shape/{name}', f'{where}: weight shape {w.shape}', prop='C09')
            return
        Kc = w.shape[-2]
        given = opts.get('wca_given')
        nd_ = len(opts['aff_shape']) if opts.get('aff_shape') is not None else None
        if isinstance(given, int) and nd_ and given % nd_ == nd_ - 2 and K and K > 1:
            # "When the weight_constant_axis is -2 or the positive counterpart, then the returned shape is always (K, 1) and the value is 1/K"
            R.check(monitor, w.shape == (K, 1) and np.allclose(w, 1 / K, rtol=0, atol=4 * weps), f'domain/weight-uniform/{name}',
                    f'{where}: weight_constant_axis={given} (the class axis): weight of shape {w.shape} is not the documented (K, 1) array of 1/K', prop='C09')
            return
        if Kc == 1 and K and K > 1:
            # tied over the class axis: documented value 1/K (0 where a source-activity mask switches
            # every class off)
            good = np.isclose(w, 1 / K, rtol=0, atol=4 * weps + 2 * eps_aff)
            if opts.get('mask') is not None:
                good = good | (w == 0)
            R.check(monitor, bool(good.all()), f'domain/weight-uniform/{name}', f'{where}: weight tied over classes is not 1/K', prop='C09')
            return
        s = w.sum(axis=-2)
        if K and Kc == K and w.shape[-1] == 1 and w.shape == (K, 1) and wca in (-2, (-2,), [-2]):
            R.check(monitor, np.allclose(w, 1 / K, rtol=0, atol=4 * weps), f'domain/weight-uniform/{name}', f'{where}: weight tied over classes is not 1/K', prop='C09')
            return
    tol = Kc * eps_aff + 16 * Kc * weps
    if opts.get('mask') is not None or opts.get('zero_columns_ok'):
        # frames in which the mask switches every class off (for all tied slices) carry no prior mass at all
        s = np.where(s == 0, 1.0, s)
    dev = float(np.abs(s - 1).max())
    R.check(monitor, dev <= tol, f'domain/weight-sum/{name}', f'{where}: |sum_k w - 1| = {dev:.3e} > {tol:.1e}', prop='C09', dev=dev)
    # documented shape / constant along tied axes
    shape = opts.get('aff_shape')
    if shape is not None and wca is not None and not integration:
        axes = (wca,) if isinstance(wca, int) else tuple(wca)
        exp = list(shape)
        nd = len(shape)
        for a in axes:
            exp[a % nd] = 1
        if any(a % nd == nd - 3 and nd >= 3 for a in axes) or True:
            pass
        if opts.get('singleton_init'):
            okshape = len(w.shape) == len(exp) and all(a == b or a == 1 for a, b in zip(w.shape, exp))
        else:
            okshape = tuple(w.shape) == tuple(exp)
        R.check(monitor, okshape, f'domain/weight-shape/{name}',
                f'{where}: weight shape {w.shape} != documented {tuple(exp)} for weight_constant_axis={wca}', prop='C09')
    if shape is not None and integration:
        F, K_, T = shape
        axes = tuple(getattr(model, 'weight_constant_axis'))
        exp = tuple(n for a, n in zip((-3, -2, -1), (F, K_, T)) if a not in axes)
        R.check(monitor, tuple(w.shape) == exp, f'domain/weight-shape/{name}',
                f'{where}: weight shape {w.shape} != documented {exp} for weight_constant_axis={axes}', prop='C09')


def check_cacg(R, monitor, cacg, opts, where):
    U = np.asarray(cacg.covariance_eigenvectors)
    lam = np.asarray(cacg.covariance_eigenvalues)
    if not (np.isfinite(U).all() and np.isfinite(lam).all()):
        return
    D = U.shape[-1]
    R.check(monitor, np.isrealobj(lam), 'domain/cacg/eigenvalues-complex', f'{where}: complex eigenvalues', prop='C09')
    G = np.einsum('...ab,...ac->...bc', U.conj(), U)
    dev = float(np.abs(G - np.eye(D)).max())
    utol = 1e-8 if U.dtype == np.complex128 else 2e-5
    R.check(monitor, dev <= utol, 'domain/cacg/not-unitary', f'{where}: |U^H U - I| = {dev:.3e}', prop='C09', dev=dev)
    norm = opts.get('covariance_norm', 'eigenvalue')
    floor = opts.get('eigenvalue_floor', 1e-10)
    mx = lam.max(axis=-1)
    mn = lam.min(axis=-1)
    if norm == 'eigenvalue':
        degenerate = mx < 1  # zero scatter: everything floored
        good = ~degenerate
        if degenerate.any():
            R.count('C09:cacg zero-scatter class (all eigenvalues floored)', int(degenerate.sum()))
            R.check(monitor, bool(np.all(lam[degenerate] == floor)), 'domain/cacg/degenerate-not-floored',
                    f'{where}: max eigenvalue < 1 but eigenvalues not all at the floor', prop='C09')
        if good.any():
            R.check(monitor, bool(np.all(mx[good] == 1.0)), 'domain/cacg/max-not-one', f'{where}: max eigenvalue {mx[good].max()} != 1', prop='C09')
            R.check(monitor, bool(np.all(mn[good] >= floor)), 'domain/cacg/below-floor', f'{where}: min eigenvalue {mn.min():.3e} < floor {floor}', prop='C09')
        if floor > 0:
            R.check(monitor, bool(np.all(mn > 0)), 'domain/cacg/not-positive', f'{where}: eigenvalue <= 0', prop='C09')
    elif norm == 'trace':
        tr = lam.sum(axis=-1)
        ttol = 1e-9 if lam.dtype == np.float64 else 1e-5
        ok = (tr >= 1 - ttol) & (tr <= 1 + D * floor * mx + ttol)
        degenerate = mx <= floor * (1 + 1e-12)          # zero scatter: every eigenvalue at the absolute floor
        if degenerate.any():
            R.count('C09:cacg zero-scatter class (all eigenvalues floored)', int(degenerate.sum()))
        R.check(monitor, bool(np.all(ok | degenerate)), 'domain/cacg/trace-not-one', f'{where}: trace of eigenvalues {tr.min():.6g}..{tr.max():.6g}', prop='C09')
        if degenerate.any() and floor > 0:
            # a unit-trace covariance has a largest eigenvalue >= 1/D: one at or below the floor is the zero-scatter class, whose eigenvalues sit at the floor itself
            R.check(monitor, bool(np.all(lam[degenerate] >= floor * (1 - 1e-12))), 'domain/cacg/degenerate-not-floored', f'{where}: zero-scatter class with eigenvalues {lam[degenerate].min():.3e} below the floor {floor}', prop='C09')
        R.check(monitor, bool(np.all(mn >= floor * mx * (1 - 1e-12))), 'domain/cacg/below-floor', f'{where}: eigenvalue below floor*max', prop='C09')
    else:
        R.check(monitor, bool(np.all(mn >= floor * mx * (1 - 1e-12))), 'domain/cacg/below-floor', f'{where}: eigenvalue below floor*max', prop='C09')
    if floor > 0:
        with np.errstate(all='ignore'):
            usable = bool(np.all(mn > 0)) and bool(np.isfinite(1.0 / mn).all())       # the density is evaluated with the reciprocal eigenvalues
        R.check(monitor, usable, 'domain/cacg/not-positive', f'{where}: covariance not (numerically) positive definite (eigenvalue {mn.min():.3e})', prop='C09')
    return
    if floor > 0:
        if (mn <= 0).any() and not ((mx == 0).any()):
            R.fail(monitor, 'domain/cacg/not-positive', f'{where}: covariance not positive definite', prop='C09')


def check_watson(R, monitor, w, opts, where):
    mode, kappa = np.asarray(w.mode), np.asarray(w.concentration)
    if not (np.isfinite(mode).all() and np.isfinite(kappa).all()):
        return
    nrm = np.linalg.norm(mode, axis=-1)
    dev = float(np.abs(nrm - 1).max())
    R.check(monitor, dev <= max(1e-10, 16 * float(np.finfo(mode.dtype).eps)), 'domain/watson/mode-norm',      # unit norm in the precision the mode is stored in
            f'{where}: |mode| deviates from 1 by {dev:.3e}', prop='C09', dev=dev)
    mx = opts.get('max_concentration', 500)
    R.check(monitor, bool((kappa >= 0).all() and (kappa <= mx * (1 + 1e-12)).all()), 'domain/watson/concentration-range',
            f'{where}: concentration {kappa.min()}..{kappa.max()} outside [0,{mx}]', prop='C09')


def check_vmf(R, monitor, v, opts, where):
    mean, kappa = np.asarray(v.mean), np.asarray(v.concentration)
    if not (np.isfinite(mean).all() and np.isfinite(kappa).all()):
        return
    nrm = np.linalg.norm(mean, axis=-1)
    nz = nrm > 0
    if (~nz).any():
        R.count('C09:vmf zero resultant', int((~nz).sum()))
    dev = float(np.abs(nrm[nz] - 1).max()) if nz.any() else 0.0
    R.check(monitor, dev <= max(1e-10, 16 * float(np.finfo(mean.dtype).eps) if mean.dtype.kind == 'f' else 1e-10), 'domain/vmf/mean-norm',
            f'{where}: |mean| deviates from 1 by {dev:.3e}', prop='C09', dev=dev)
    lo, hi = opts.get('min_concentration', 1e-10), opts.get('max_concentration', 500)
    R.check(monitor, bool((kappa >= lo).all() and (kappa <= hi).all()), 'domain/vmf/concentration-range',
            f'{where}: concentration {kappa.min()}..{kappa.max()} outside [{lo},{hi}]', prop='C09')


def check_gaussian(R, monitor, g, opts, where):
    name = type(g).__name__
    cov = np.asarray(g.covariance)
    if not (np.isfinite(cov).all() and np.isfinite(np.asarray(g.mean)).all()):
        return
    if name == 'Gaussian':
        asym = float(np.abs(cov - np.swapaxes(cov, -1, -2)).max())
        scale = float(np.abs(cov).max()) or 1.0
        R.check(monitor, asym <= 1e-10 * scale, 'domain/gaussian/asymmetric', f'{where}: covariance asymmetry {asym:.3e}', prop='C09')
        # (scale-free: a component that has collapsed onto one observation has a covariance of subnormal magnitude, whose
        # eigenvalues underflow to zero although the matrix is positive definite)
        sc = np.abs(cov).max(axis=(-2, -1), keepdims=True)
        with np.errstate(all='ignore'):
            ev = np.linalg.eigvalsh(np.where(sc > 0, (cov + np.swapaxes(cov, -1, -2)) / 2 / np.where(sc > 0, sc, 1.0), 0.0))
        R.check(monitor, bool((ev.min(axis=-1) > -64 * EPS * np.abs(ev).max(axis=-1)).all() and (ev.max(axis=-1) > 0).all()),
                'domain/gaussian/not-pd', f'{where}: covariance eigenvalue {ev.min():.3e}', prop='C09')
    else:
        R.check(monitor, bool((cov > 0).all()), f'domain/gaussian/not-pd/{name}', f'{where}: variance {cov.min():.3e} <= 0', prop='C09')


def check_bingham(R, monitor, b, opts, where):
    lam = np.asarray(b.covariance_eigenvalues)
    U = np.asarray(b.covariance_eigenvectors)
    if not (np.isfinite(lam).all() and np.isfinite(U).all()):
        return
    mx = opts.get('max_concentration', np.inf)
    # the trainer separates duplicate eigenvalues by `eigenvalue_eps` (1e-8, documented in its own
    # doctest: -500.00000002 for max_concentration=500); allow D such steps at either end
    slack = lam.shape[-1] * opts.get('eigenvalue_eps', 1e-8) * 1.01
    top = lam.max(axis=-1)
    R.check(monitor, bool((top <= slack).all() and (top >= -slack).all()), 'domain/bingham/max-not-zero',
            f'{where}: largest eigenvalue {top.min()}..{top.max()} (must be 0)', prop='C09')
    if np.isfinite(mx):
        R.check(monitor, bool((lam >= -mx - slack).all()), 'domain/bingham/below-max-concentration',
                f'{where}: eigenvalue {lam.min()} < -{mx}', prop='C09')
    D = U.shape[-1]
    G = np.einsum('...ab,...ac->...bc', U.conj(), U)
    dev = float(np.abs(G - np.eye(D)).max())
    R.check(monitor, dev <= (1e-8 if U.dtype == np.complex128 else 2e-5), 'domain/bingham/not-unitary',      # unitary in the precision the eigenvectors are stored in
            f'{where}: |U^H U - I| = {dev:.3e}', prop='C09')


DISPATCH = dict(ComplexAngularCentralGaussian=check_cacg, ComplexWatson=check_watson, VonMisesFisher=check_vmf,
                Gaussian=check_gaussian, DiagonalGaussian=check_gaussian, SphericalGaussian=check_gaussian,
                ComplexBingham=check_bingham)


def check_model(R, model, opts, monitor='C09.model', where=''):
    opts = opts or {}
    R.seen(monitor)
    if not _finite_fields(R, monitor, model, where):
        return False
    before = R.monitors[monitor]['violated']
    check_weight(R, monitor, model, opts, where)
    objs = [model] + [getattr(model, k) for k in model.__dataclass_fields__ if hasattr(getattr(model, k), '__dataclass_fields__')]
    for o in objs:
        f = DISPATCH.get(type(o).__name__)
        if f is not None:
            f(R, monitor, o, opts, where)
    return R.monitors[monitor]['violated'] == before

"""Independent reference computations (DESIGN 4.1). Written for clarity, share no helper with
pb_bss."""
import math
from decimal import Decimal, getcontext

import numpy as np
import scipy.special
import scipy.stats


# ---------------------------------------------------------------------------
# posterior / likelihood
# ---------------------------------------------------------------------------

def log_softmax_posterior(log_w, log_p, mask=None):
    """Bayes' rule in the log domain: gamma = exp(log w + log p - logsumexp_k(...)).
    log_w, log_p broadcast to (..., K, N); mask boolean or None. Columns where every class is
    switched off (or has zero weight) give an all-zero column."""
    with np.errstate(divide='ignore', invalid='ignore', over='ignore', under='ignore'):
        lp = np.asarray(log_p, dtype=np.float64)
        # remove the common offset first: log_p may be of magnitude 1e10 and log_w of order one would be rounded away
        top = np.max(lp, axis=-2, keepdims=True)
        lp = lp - np.where(np.isfinite(top), top, 0.0)
        s = np.asarray(log_w, dtype=np.float64) + lp
        if mask is not None:
            s = np.where(mask, s, -np.inf)
        lse = scipy.special.logsumexp(s, axis=-2, keepdims=True)
        g = np.exp(s - lse)
        g = np.where(np.isfinite(lse), g, 0.0)
    return g


def mixture_log_likelihood(log_w, log_p, saliency=None):
    """sum_n s_n logsumexp_k(log w_k + log p_k(y_n)); returns per-leading-slice sums are not needed,
    one scalar over everything."""
    with np.errstate(divide='ignore'):
        s = np.asarray(log_w, dtype=np.float64) + np.asarray(log_p, dtype=np.float64)
    lse = scipy.special.logsumexp(s, axis=-2)
    if saliency is not None:
        lse = lse * saliency
    return float(np.sum(lse))


def unsqueeze(weight, axes, ndim=3):
    """Own version of the documented re-expansion of squeezed integration-model weights."""
    w = np.asarray(weight, dtype=np.float64)
    axes = sorted(a % ndim for a in axes)
    shape = list(w.shape)
    for a in axes:
        shape.insert(a, 1)
    return w.reshape(shape)


# ---------------------------------------------------------------------------
# densities
# ---------------------------------------------------------------------------

def unit(y):
    n = np.linalg.norm(y, axis=-1, keepdims=True)
    return y / np.where(n == 0, 1, n)


def cacg_log_pdf(y, B):
    """-D log(z^H B^-1 z) - log det B, z = y/|y| ; y (..., N, D), B (..., D, D)."""
    D = y.shape[-1]
    z = unit(np.asarray(y, dtype=np.complex128))
    Binv = np.linalg.inv(B)
    q = np.einsum('...nd,...de,...ne->...n', z.conj(), Binv, z).real
    sign, logdet = np.linalg.slogdet(B)
    return -D * np.log(q) - logdet[..., None]


def ccsg_log_pdf(y, S):
    D = y.shape[-1]
    Sinv = np.linalg.inv(S)
    q = np.einsum('...nd,...de,...ne->...n', y.conj(), Sinv, y).real
    sign, logdet = np.linalg.slogdet(S)
    return -D * math.log(math.pi) - logdet[..., None] - q


def gaussian_log_pdf(x, mean, cov):
    """scipy.stats for one (mean, cov); x (N, D)."""
    return scipy.stats.multivariate_normal(mean=mean, cov=cov, allow_singular=False).logpdf(x)


def log_sphere_area_complex(D):
    return math.log(2) + D * math.log(math.pi) - math.lgamma(D)


def watson_log_norm(kappa, D):
    """log of the complex Watson normaliser c(kappa) = area * M(1, D, kappa), with
    M(1,D,k) = (D-1) int_0^1 e^{k t} (1-t)^{D-2} dt = (D-1) e^k gamma(D-1,k) / k^(D-1)
    evaluated through the regularised lower incomplete gamma function (no hyp1f1)."""
    kappa = np.asarray(kappa, dtype=np.float64)
    out = np.full(kappa.shape, log_sphere_area_complex(D))
    a = D - 1
    k = np.where(kappa > 0, kappa, 1.0)
    with np.errstate(divide='ignore'):
        small = k < 1e-3
        # series for small kappa: M = sum_j k^j / (D)_j
        ser = np.zeros_like(k)
        term = np.ones_like(k)
        ser = ser + term
        for j in range(1, 12):
            term = term * k / (D + j - 1)
            ser = ser + term
        big = k + math.log(a) + np.log(scipy.special.gammainc(a, k)) + math.lgamma(a) - a * np.log(k)
    logM = np.where(small, np.log(ser), big)
    return out + np.where(kappa > 0, logM, 0.0)


def watson_log_pdf(z, mode, kappa):
    """z (..., N, D) unit norm, mode (..., D), kappa (...)."""
    D = z.shape[-1]
    ip = np.einsum('...nd,...d->...n', z, np.conj(mode))
    return kappa[..., None] * (ip.real ** 2 + ip.imag ** 2) - watson_log_norm(kappa, D)[..., None]


def vmf_log_pdf(x, mean, kappa):
    """x (N, D) unit-norm rows, mean (D,), kappa scalar; independent normaliser from scipy.stats."""
    return scipy.stats.vonmises_fisher(mu=mean, kappa=float(kappa)).logpdf(x)


def vmf_log_norm_direct(kappa, D):
    """log of the vMF normaliser (the thing subtracted): (D/2) log 2pi + log I_{D/2-1}(k) - (D/2-1) log k."""
    nu = D / 2 - 1
    return (D / 2) * math.log(2 * math.pi) + np.log(scipy.special.ive(nu, kappa)) + kappa - nu * np.log(kappa)


# -- complex Bingham ---------------------------------------------------------

def bingham_log_norm_hp(eigs, digits=160):
    """log c(lambda), c = 2 pi^D sum_j exp(l_j) / prod_{i != j}(l_j - l_i), evaluated in `digits`
    digit decimal arithmetic (immune to the cancellation of the formula for clustered
    eigenvalues as long as the gaps are >= 10^-(digits/(2D)))."""
    getcontext().prec = digits
    l = [Decimal(repr(float(v))) for v in eigs]
    D = len(l)
    mx = max(l)
    tot = Decimal(0)
    for j in range(D):
        p = Decimal(1)
        for i in range(D):
            if i != j:
                p *= (l[j] - l[i])
        tot += (l[j] - mx).exp() / p
    val = tot.ln() + mx
    return float(val) + math.log(2) + D * math.log(math.pi)


def bingham_cancellation(eigs):
    """Amplification sum|a_j e^{l_j}| / |sum a_j e^{l_j}| of the product formula in float64 terms."""
    getcontext().prec = 160
    l = [Decimal(repr(float(v))) for v in eigs]
    D = len(l)
    mx = max(l)
    terms = []
    for j in range(D):
        p = Decimal(1)
        for i in range(D):
            if i != j:
                p *= (l[j] - l[i])
        terms.append((l[j] - mx).exp() / p)
    s = sum(terms)
    a = sum(abs(t) for t in terms)
    return float(a / abs(s))


def bingham_grad_log_norm_hp(eigs, h=Decimal('1e-30')):
    """d log c / d lambda_j by central differences in high precision."""
    getcontext().prec = 160
    out = []
    base = [Decimal(repr(float(v))) for v in eigs]

    def logc(l):
        D = len(l)
        mx = max(l)
        tot = Decimal(0)
        for j in range(D):
            p = Decimal(1)
            for i in range(D):
                if i != j:
                    p *= (l[j] - l[i])
            tot += (l[j] - mx).exp() / p
        return tot.ln() + mx
    for j in range(len(base)):
        up = list(base); up[j] += h
        dn = list(base); dn[j] -= h
        out.append(float((logc(up) - logc(dn)) / (2 * h)))
    return np.array(out)


def bingham_log_pdf(z, U, lam):
    """z (N, D) unit, U (D, D) eigenvectors in columns, lam (D,)."""
    A = (U * lam) @ U.conj().T
    q = np.einsum('nd,de,ne->n', z.conj(), A, z).real
    return q - bingham_log_norm_hp(lam)

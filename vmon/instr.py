"""Instrumentation layers (DESIGN 3): repository hook subscriber, harness-side contract
wrappers on the real functions, floating-point guard, reach monitor."""
import contextlib
import functools
import os
import sys

import numpy as np

CTX = None


class Ctx:
    def __init__(self, R):
        self.R = R
        self.hook_events = 0
        self.hook_validated = 0
        self.capturing = []       # stack of lists receiving copies of em_iteration payloads
        self.contract_evals = {}
        self.fp = {}
        self.lines = set()
        self.wrapped = []
        self.armed = True


# ---------------------------------------------------------------------------
# hook
# ---------------------------------------------------------------------------

def _copy_payload(p):
    import copy
    out = {}
    for k, v in p.items():
        if isinstance(v, np.ndarray):
            out[k] = v.copy()
        elif k == 'model':
            out[k] = copy.deepcopy(v)
        else:
            out[k] = v
    return out


def _on_event(event, payload):
    ctx = CTX
    if ctx is None or event != 'em_iteration':
        return
    ctx.hook_events += 1
    if ctx.capturing:
        ctx.capturing[-1].append(_copy_payload(payload))
    if ctx.armed:
        from vmon import contracts
        try:
            contracts.on_em_iteration(ctx, payload)
        except Exception as e:  # a broken monitor must never alter the observed execution
            ctx.R.count('monitor_internal_error:on_em_iteration')
            ctx.R.count('monitor_internal_error_msg:' + repr(e)[:120])


@contextlib.contextmanager
def capture():
    """Collect (copies of) the em_iteration events emitted inside the block."""
    buf = []
    CTX.capturing.append(buf)
    try:
        yield buf
    finally:
        CTX.capturing.pop()


@contextlib.contextmanager
def options(**opts):
    """Tell the armed contracts which trainer options the calls inside the block use."""
    old = CTX.case_opts
    CTX.case_opts = opts
    try:
        yield
    finally:
        CTX.case_opts = old


@contextlib.contextmanager
def disarmed():
    """Switch the always-on contracts off (used when the harness itself calls library helpers as
    part of an oracle computation on deliberately odd inputs)."""
    old = CTX.armed
    CTX.armed = False
    try:
        yield
    finally:
        CTX.armed = old


# ---------------------------------------------------------------------------
# wrapping
# ---------------------------------------------------------------------------

def wrap_everywhere(ctx, original, make_wrapper, label):
    """Replace every binding of the function object `original` in all pb_bss modules (and as a
    static/class attribute of classes defined there) by make_wrapper(original)."""
    w = make_wrapper(original)
    w.__wrapped_by_vmon__ = original
    n = 0
    for name, m in list(sys.modules.items()):
        if not (name == 'pb_bss' or name.startswith('pb_bss.')) or m is None:
            continue
        for attr, val in list(vars(m).items()):
            if val is original:
                setattr(m, attr, w)
                n += 1
            elif isinstance(val, type) and getattr(val, '__module__', '').startswith('pb_bss'):
                for cattr, cval in list(vars(val).items()):
                    f = cval.__func__ if isinstance(cval, (staticmethod, classmethod)) else cval
                    if f is original:
                        if isinstance(cval, staticmethod):
                            setattr(val, cattr, staticmethod(w))
                        elif isinstance(cval, classmethod):
                            setattr(val, cattr, classmethod(w))
                        else:
                            setattr(val, cattr, w)
                        n += 1
    ctx.wrapped.append((label, n))
    ctx.contract_evals.setdefault(label, 0)
    return w


def observed(ctx, label, post):
    """make_wrapper for wrap_everywhere: call through, then hand (args, kwargs, result) to
    post(ctx, args, kwargs, result). post must never raise into the library."""
    def make(f):
        @functools.wraps(f)
        def w(*args, **kwargs):
            res = f(*args, **kwargs)
            if CTX is not None and CTX.armed:
                CTX.contract_evals[label] = CTX.contract_evals.get(label, 0) + 1
                try:
                    post(CTX, args, kwargs, res)
                except Exception as e:  # a broken monitor must not alter the execution
                    CTX.R.count('monitor_internal_error:' + label)
                    CTX.R.count('monitor_internal_error_msg:' + repr(e)[:120])
            return res
        return w
    return make


# ---------------------------------------------------------------------------
# floating point guard / reach monitor
# ---------------------------------------------------------------------------

def _fp_cb(kind, flag):
    ctx = CTX
    if ctx is None:
        return
    f = sys._getframe(1)
    site = '?'
    while f is not None:
        fn = f.f_code.co_filename
        if '/pb_bss/' in fn:
            site = fn.split('/pb_bss/', 1)[1] + ':' + str(f.f_lineno)
            break
        f = f.f_back
    k = f'{kind}@{site}'
    ctx.fp[k] = ctx.fp.get(k, 0) + 1


@contextlib.contextmanager
def fp_guard():
    old = np.seterrcall(_fp_cb)
    with np.errstate(all='call'):
        try:
            yield
        finally:
            np.seterrcall(old)


def _install_reach(ctx, repo):
    mon = getattr(sys, 'monitoring', None)
    if mon is None:
        return
    tool = 3
    try:
        mon.use_tool_id(tool, 'vmon-reach')
    except ValueError:
        return
    prefix = os.path.realpath(repo) + '/pb_bss/'

    def on_line(code, line):
        fn = code.co_filename
        if fn.startswith(prefix):
            ctx.lines.add((fn[len(prefix):], line))
        return mon.DISABLE

    mon.register_callback(tool, mon.events.LINE, on_line)
    mon.set_events(tool, mon.events.LINE)


def reached(rel_file, line):
    return (rel_file, line) in CTX.lines


# ---------------------------------------------------------------------------

def install(R, mod):
    global CTX
    ctx = CTX = Ctx(R)
    from pb_bss import _verif
    if getattr(_verif, 'ENABLED', False):
        _verif.subscribe(_on_event)
    repo = os.environ.get('VERIF_REPO', '/repo')
    if getattr(mod, 'REACH', True):
        _install_reach(ctx, repo)
    from vmon import contracts
    contracts.install(ctx, getattr(mod, 'ARM', ('C01', 'C09', 'C14')))
    return ctx


def report(ctx):
    by_file = {}
    for fn, _ in ctx.lines:
        by_file[fn] = by_file.get(fn, 0) + 1
    return dict(
        hook_events=ctx.hook_events, hook_validated=ctx.hook_validated,
        contract_evals=ctx.contract_evals, fp_events=ctx.fp,
        lines_reached=by_file, wrapped=[f'{a}x{b}' for a, b in ctx.wrapped],
    )


def is_library_exception(e):
    """True if the exception was raised below a pb_bss frame (library / numpy / scipy code called by the
    library), False if it comes from the harness itself (a harness bug must surface, not be counted)."""
    tb = e.__traceback__
    seen_lib = False
    while tb is not None:
        fn = tb.tb_frame.f_code.co_filename
        if '/pb_bss/' in fn:
            seen_lib = True
        tb = tb.tb_next
    return seen_lib

"""Recorder: three-valued verdict bookkeeping for monitors (DESIGN 2.1).

A monitor is just a name. Every evaluation of a condition goes through
Recorder.check / ok / fail / undecided, which never raise into the library.
"""
import json
import math
import numpy as np


def jsonable(x, depth=0):
    if depth > 6:
        return str(type(x))
    if x is None or isinstance(x, (bool, int, str)):
        return x
    if isinstance(x, float):
        return x if math.isfinite(x) else repr(x)
    if isinstance(x, (np.bool_,)):
        return bool(x)
    if isinstance(x, np.integer):
        return int(x)
    if isinstance(x, np.floating):
        return jsonable(float(x))
    if isinstance(x, complex) or isinstance(x, np.complexfloating):
        return [jsonable(float(x.real)), jsonable(float(x.imag))]
    if isinstance(x, np.ndarray):
        if x.size <= 24:
            return jsonable(x.tolist(), depth + 1)
        return {'ndarray': list(x.shape), 'dtype': str(x.dtype)}
    if isinstance(x, dict):
        return {str(k): jsonable(v, depth + 1) for k, v in x.items()}
    if isinstance(x, (list, tuple, set, frozenset)):
        return [jsonable(v, depth + 1) for v in x]
    return repr(x)[:200]


class Recorder:
    MAX_SAMPLES = 12
    MAX_VIOL_PER_KEY = int(__import__("os").environ.get("VMON_MAXV", "3"))

    def __init__(self, prop):
        self.prop = prop
        self.monitors = {}      # name -> dict(seen, checked, violated, undecided)
        self.counters = {}
        self.nontrivial = set()
        self.samples = []
        self.violations = []
        self._viol_per_key = {}
        self.case = None
        self.case_status = None
        self.undecided_reasons = {}
        self._case_checked = self._case_violated = self._case_undecided = 0

    # -- case lifecycle -------------------------------------------------
    def begin_case(self, case):
        self.case = case
        self._case_checked = 0
        self._case_violated = 0
        self._case_undecided = 0

    def end_case(self):
        if self._case_violated:
            st = 'violated'
        elif self._case_checked:
            st = 'held'
        else:
            st = 'undecided'
        self.case = None
        return st

    # -- monitors ---------------------------------------------------------
    def _m(self, name):
        m = self.monitors.get(name)
        if m is None:
            m = self.monitors[name] = dict(seen=0, checked=0, violated=0, undecided=0)
        return m

    def seen(self, monitor, n=1):
        self._m(monitor)['seen'] += n

    def ok(self, monitor, n=1):
        m = self._m(monitor)
        m['checked'] += n
        self._case_checked += n

    def fail(self, monitor, key, msg='', prop=None, **info):
        m = self._m(monitor)
        m['checked'] += 1
        m['violated'] += 1
        self._case_checked += 1
        self._case_violated += 1
        k = (prop or self.prop, key)
        c = self._viol_per_key.get(k, 0)
        self._viol_per_key[k] = c + 1
        if c < self.MAX_VIOL_PER_KEY:
            self.violations.append(dict(
                prop=prop or self.prop, monitor=monitor, key=key, msg=msg,
                case=jsonable(self.case), info=jsonable(info)))

    def check(self, monitor, holds, key, msg="", prop=None, **info):
        if bool(holds):
            self.ok(monitor)
            return True
        self.fail(monitor, key, msg, prop=prop, **info)
        return False

    def undecided(self, monitor, reason):
        m = self._m(monitor)
        m['undecided'] += 1
        self._case_undecided += 1
        r = f'{monitor}:{reason}'
        self.undecided_reasons[r] = self.undecided_reasons.get(r, 0) + 1

    # -- evidence helpers ---------------------------------------------------
    def count(self, name, n=1):
        self.counters[name] = self.counters.get(name, 0) + n

    def mark_nontrivial(self, *sig):
        self.nontrivial.add(json.dumps(jsonable(sig), sort_keys=True))

    def sample(self, obj):
        if len(self.samples) < self.MAX_SAMPLES:
            self.samples.append(jsonable(obj))

    def dump(self):
        return dict(
            monitors=self.monitors, counters=self.counters,
            nontrivial=sorted(self.nontrivial), samples=self.samples,
            violations=self.violations, viol_counts={f'{k[0]}|{k[1]}': v for k, v in self._viol_per_key.items()},
            undecided_reasons=self.undecided_reasons,
        )

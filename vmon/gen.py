"""Seeded input generators (DESIGN 5.1). Everything is a function of a numpy Generator."""
import itertools
import numpy as np


def rng_of(case):
    return np.random.default_rng([int(x) for x in case['rs']])


def cnormal(rng, shape, dtype=np.complex128):
    x = rng.standard_normal(shape) + 1j * rng.standard_normal(shape)
    return (x / np.sqrt(2)).astype(dtype)


def random_unitary(rng, D, lead=()):
    q, r = np.linalg.qr(cnormal(rng, (*lead, D, D)))
    return q


def random_orthogonal(rng, D, lead=()):
    q, r = np.linalg.qr(rng.standard_normal((*lead, D, D)))
    return q


def hpd(rng, D, cond=10.0, lead=(), real=False, scale=1.0):
    """Hermitian (symmetric) positive definite matrices with the given condition number and
    generic (non-diagonal) eigenvectors."""
    U = random_orthogonal(rng, D, lead) if real else random_unitary(rng, D, lead)
    if D == 1:
        ev = np.ones((*lead, 1))
    else:
        ev = np.exp(rng.uniform(0, np.log(cond), size=(*lead, D)))
        ev[..., 0] = 1.0
        ev[..., -1] = cond
    ev = ev * scale
    M = np.einsum('...ab,...b,...cb->...ac', U, ev, U.conj())
    M = (M + np.swapaxes(M.conj(), -1, -2)) / 2
    return M


def dirichlet_init(rng, lead, K, N, alpha=1.0, floor=1e-6):
    a = rng.dirichlet([alpha] * K, size=(*lead, N))  # (..., N, K)
    a = np.swapaxes(a, -1, -2)
    a = np.maximum(a, floor)
    return a / a.sum(-2, keepdims=True)


def onehot_init(rng, lead, K, N, blur=0.0):
    """Hard (or blurred) one-hot start with every class non-empty in every slice (needs N >= K)."""
    lab = rng.integers(0, K, size=(*lead, N))
    # force every class to appear
    for idx in np.ndindex(*lead):
        pos = rng.permutation(N)[:K]
        lab[idx][pos] = np.arange(K) if N >= K else np.arange(K)[:N]
    oh = (lab[..., None, :] == np.arange(K)[:, None]).astype(np.float64)
    if blur > 0:
        oh = (1 - blur) * oh + blur / K
    return oh, lab


def skewed_labels(rng, lead, K, N):
    """class labels with class proportions that differ from slice to slice (Dirichlet(2) per slice)"""
    lab = np.empty((*lead, N), dtype=int)
    for idx in np.ndindex(*lead):
        p = rng.dirichlet([2.0] * K)
        lab[idx] = rng.choice(K, size=N, p=p)
    return lab


def planted_cmixture(rng, lead, K, N, D, cond=30.0, dtype=np.complex128):
    """Observations from K zero-mean complex Gaussians with random covariances; returns y, labels."""
    covs = hpd(rng, D, cond=cond, lead=(*lead, K))
    L = np.linalg.cholesky(covs)
    lab = skewed_labels(rng, lead, K, N)
    x = cnormal(rng, (*lead, N, D))
    Lsel = np.take_along_axis(L, lab[..., None, None], axis=-3) if False else None
    y = np.empty((*lead, N, D), dtype=np.complex128)
    for idx in np.ndindex(*lead):
        for k in range(K):
            m = lab[idx] == k
            y[idx][m] = x[idx][m] @ L[idx][k].T
    return y.astype(dtype), lab


def planted_rmixture(rng, lead, K, N, D, spread=3.0, cond=10.0, dtype=np.float64):
    """Real observations from K Gaussians with random means and non-diagonal covariances."""
    means = rng.standard_normal((*lead, K, D)) * spread
    covs = hpd(rng, D, cond=cond, lead=(*lead, K), real=True)
    L = np.linalg.cholesky(covs)
    lab = skewed_labels(rng, lead, K, N)
    x = rng.standard_normal((*lead, N, D))
    y = np.empty((*lead, N, D))
    for idx in np.ndindex(*lead):
        for k in range(K):
            m = lab[idx] == k
            y[idx][m] = x[idx][m] @ L[idx][k].T + means[idx][k]
    return y.astype(dtype), lab


OBS_CLASSES = ('gauss', 'scaled_up', 'scaled_down', 'ragged', 'zeros', 'dup', 'lowrank', 'short')


def hostile(rng, y, cls, real=False):
    """Turn a benign observation tensor (..., N, D) into the named hostile class. Returns the new
    tensor (same dtype). Squares of all entries stay finite in the dtype."""
    y = y.copy()
    single = y.dtype in (np.complex64, np.float32)
    big = 15 if single else 150
    N, D = y.shape[-2:]
    if cls == 'gauss':
        return y
    if cls == 'scaled_up':
        return (y * (10.0 ** big)).astype(y.dtype)
    if cls == 'scaled_down':
        return (y * (10.0 ** -big)).astype(y.dtype)
    if cls == 'ragged':
        g = 10.0 ** rng.uniform(-big, big, size=y.shape[:-1] + (1,))
        if not real:
            g = g * np.exp(2j * np.pi * rng.uniform(size=g.shape))
        else:
            g = g  # positive gains for real families
        return (y * g).astype(y.dtype)
    if cls == 'zeros':
        nz = int(rng.integers(1, max(2, N // 3 + 1)))
        for idx in np.ndindex(*y.shape[:-2]):
            y[idx][rng.permutation(N)[:nz]] = 0
        return y
    if cls == 'dup':
        for idx in np.ndindex(*y.shape[:-2]):
            src = rng.integers(0, max(1, N // 3), size=N)
            y[idx] = y[idx][src]
        return y
    if cls == 'lowrank':
        d = int(rng.integers(1, D))
        for idx in np.ndindex(*y.shape[:-2]):
            B = (rng.standard_normal((d, D)) if real else cnormal(rng, (d, D)))
            c = (rng.standard_normal((N, d)) if real else cnormal(rng, (N, d)))
            y[idx] = (c @ B).astype(y.dtype)
        return y
    if cls == 'outlier':
        # one or two observations per slice tens to hundreds of standard deviations away from everything else: their log-densities
        # lie hundreds of nats below those of the other observations of the slice (not below those of the other classes)
        sd = float(np.std(y.real)) or 1.0
        for idx in np.ndindex(*y.shape[:-2]):
            for n in rng.permutation(N)[:int(rng.integers(1, 3))]:
                v = rng.standard_normal(D) if real else cnormal(rng, (D,))
                y[idx][n] = y[idx][n] + (float(rng.choice([40, 80, 200, 500])) * sd * v / np.linalg.norm(v)).astype(y.dtype)
        return y
    raise ValueError(cls)


def all_perms(K):
    return list(itertools.permutations(range(K)))


def gains(rng, shape, decades=100.0, kind='iid', real_positive=False):
    """Gain field c[..., n] with |c| in [1e-decades, 1e+decades]."""
    if kind == 'iid':
        mag = 10.0 ** rng.uniform(-decades, decades, size=shape)
    elif kind == 'ramp':
        mag = 10.0 ** np.broadcast_to(np.linspace(-decades, decades, shape[-1]), shape)
    elif kind == 'alternate':
        mag = 10.0 ** np.where(np.arange(shape[-1]) % 2 == 0, -decades, decades) * np.ones(shape)
    elif kind == 'extreme_one':
        mag = np.ones(shape)
        mag[..., 0] = 10.0 ** decades
        mag[..., -1] = 10.0 ** -decades
    else:
        raise ValueError(kind)
    if real_positive:
        return mag
    return mag * np.exp(2j * np.pi * rng.uniform(size=shape))

"""Runs the repository's pinned tests under the armed contracts in a subprocess and folds what the contracts observed into
the recorder of the calling check."""
import json
import os
import subprocess
import sys
import tempfile


def run(R, prop, paths=('tests/test_distribution', 'tests/test_extraction', 'pb_bss/distribution', 'pb_bss/permutation_alignment.py'), timeout=900):
    repo = os.environ.get('VERIF_REPO', '/repo')
    root = os.path.dirname(os.path.dirname(os.path.abspath(__file__)))
    fd, out = tempfile.mkstemp(prefix='vmon_suite_', suffix='.json', dir=os.path.join(root, '.work'))
    os.close(fd)
    env = dict(os.environ, VMON_SUITE_OUT=out, VMON_SUITE_PROP=prop, PB_BSS_VERIF='1', PYTHONPATH=repo + os.pathsep + root)
    cmd = [sys.executable, '-B', '-m', 'pytest', '-q', '-x', '--no-header', '-p', 'no:cacheprovider', '-p', 'vmon.pytest_plugin',
           '-o', 'addopts=--doctest-modules --doctest-continue-on-failure', '--continue-on-collection-errors', '--timeout=600', '-x', *paths]
    cmd.remove('-x'); cmd.remove('-x')
    try:
        r = subprocess.run(cmd, cwd=repo, env=env, capture_output=True, text=True, timeout=timeout)
    except subprocess.TimeoutExpired:
        R.undecided(f'{prop}.suite', 'pytest under the contracts timed out')
        return
    finally:
        jd = os.path.join(repo, 'junit')
        if os.path.isdir(jd):
            import shutil
            shutil.rmtree(jd, ignore_errors=True)
    if not os.path.exists(out) or os.path.getsize(out) == 0:
        R.undecided(f'{prop}.suite', 'pytest under the contracts produced no dump: ' + r.stdout[-300:].replace('\n', ' '))
        return
    d = json.load(open(out))
    os.remove(out)
    for name, m in d['monitors'].items():
        t = R._m(name)
        for k in t:
            t[k] += m[k]
    R._case_checked += sum(m['checked'] for m in d['monitors'].values())
    for k, v in d['counters'].items():
        R.count('suite lane: ' + k, v)
    for v in d['violations']:
        R._case_violated += 1
        key = (v['prop'], v['key'])
        c = R._viol_per_key.get(key, 0)
        R._viol_per_key[key] = c + 1
        if c < R.MAX_VIOL_PER_KEY:
            v = dict(v); v['msg'] = '[repository test-suite under the contracts] ' + v['msg']
            R.violations.append(v)
    R.count('suite lane: hook events', d.get('instr', {}).get('hook_events', 0))
    for k, v in (d.get('instr', {}).get('contract_evals') or {}).items():
        R.count(f'suite lane: contract evaluations {k}', v)
    tail = r.stdout.strip().splitlines()[-1] if r.stdout.strip() else ''
    R.sample(dict(lane='suite', pytest_summary=tail[:160], contract_evals=d.get('instr', {}).get('contract_evals')))
    R.mark_nontrivial('suite', prop)

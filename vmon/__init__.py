"""vmon - runtime monitors for the pb_bss properties C01..C20 (see /verif/DESIGN.md)."""

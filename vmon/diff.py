"""Differential helpers: gauge-free functionals of fitted models and tolerant comparison with an
ill-conditioning fallback (DESIGN 4.2, 4.3)."""
import numpy as np

from vmon import models


def _proj(v):
    v = np.asarray(v)
    return np.einsum('...a,...b->...ab', v, v.conj())


def _ucov(U, lam):
    U, lam = np.asarray(U), np.asarray(lam)
    return np.einsum('...ab,...b,...cb->...ac', U, lam, U.conj())


def dist_functionals(obj):
    """{name: array} for a single distribution object; free of eigenvector phase/sign gauges."""
    n = type(obj).__name__
    if n == 'ComplexAngularCentralGaussian':
        return {'cacg.covariance': _ucov(obj.covariance_eigenvectors, obj.covariance_eigenvalues),
                'cacg.eigenvalues': np.sort(np.asarray(obj.covariance_eigenvalues), axis=-1)}
    if n == 'ComplexWatson':
        conc = np.asarray(obj.concentration)
        # a Watson distribution of concentration exactly 0 is the uniform one whatever its mode (the scatter matrix had tied
        # leading eigenvalues and any vector of the eigenspace is a principal eigenvector): the mode is no parameter there
        return {'watson.projector': _proj(obj.mode) * (conc != 0)[..., None, None], 'watson.concentration': conc}
    if n == 'ComplexBingham':
        return {'bingham.matrix': _ucov(obj.covariance_eigenvectors, obj.covariance_eigenvalues),
                'bingham.eigenvalues': np.sort(np.asarray(obj.covariance_eigenvalues), axis=-1)}
    if n in ('Gaussian', 'DiagonalGaussian', 'SphericalGaussian'):
        return {'gaussian.mean': np.asarray(obj.mean), 'gaussian.covariance': np.asarray(obj.covariance)}
    if n == 'VonMisesFisher':
        return {'vmf.mean': np.asarray(obj.mean), 'vmf.concentration': np.asarray(obj.concentration)}
    if n == 'ComplexCircularSymmetricGaussian':
        return {'ccsg.covariance': np.asarray(obj.covariance)}
    raise TypeError(n)


def functionals(model):
    out = {}
    for k in model.__dataclass_fields__:
        v = getattr(model, k)
        if hasattr(v, '__dataclass_fields__'):
            out.update(dist_functionals(v))
        elif k == 'weight':
            out['weight'] = np.asarray(v, dtype=float)
    if not out:
        out = dist_functionals(model)
    return out


def class_axis_of(name, arr, K):
    """position of the class axis in a functional of a mixture model (None if it has none)."""
    tail = {'cacg.covariance': 3, 'cacg.eigenvalues': 2, 'watson.projector': 3, 'watson.concentration': 1,
            'bingham.matrix': 3, 'bingham.eigenvalues': 2, 'gaussian.mean': 2, 'vmf.mean': 2, 'vmf.concentration': 1}
    if name in tail:
        return arr.ndim - tail[name]
    if name == 'gaussian.covariance':
        return None  # depends on covariance type; handled by caller
    return None


def maxdev(a, b, rtol, atol):
    """max over entries of |a-b| / (atol + rtol*max(|a|,|b|)); <= 1 means within tolerance."""
    a, b = np.asarray(a), np.asarray(b)
    if a.shape != b.shape:
        return np.inf
    if a.size == 0:
        return 0.0
    if not (np.isfinite(a).all() and np.isfinite(b).all()):
        return np.inf if not np.array_equal(np.isfinite(a), np.isfinite(b)) else 0.0
    sc = atol + rtol * np.maximum(np.abs(a), np.abs(b))
    return float((np.abs(a - b) / sc).max())


def compare(fa, fb, rtol=1e-8, atol=1e-10, scale_atol=True):
    """compare two functional dicts; returns (worst ratio, name)."""
    worst, wname = 0.0, None
    for k in fa:
        a, b = np.asarray(fa[k]), np.asarray(fb[k])
        at = atol * (float(np.abs(a).max()) if (scale_atol and a.size) else 1.0) + 1e-300
        r = maxdev(a, b, rtol, at)
        if r > worst:
            worst, wname = r, k
    return worst, wname


class Judge:
    """Tolerant comparison with the ill-conditioning fallback of DESIGN 4.3: a mismatch above tolerance is a
    violation only if it exceeds 100x the case's own replica-to-replica rounding noise (measured lazily by
    `noise_fn() -> {name: value}` on inputs perturbed by 2^-50 relative)."""

    def __init__(self, R, noise_fn):
        self.R, self.noise_fn, self._noise = R, noise_fn, None
        self.failed = False
        self._confirmed = False

    def noise(self, which):
        if self._noise is None:
            try:
                self._noise = self.noise_fn() or {}
            except Exception as e:
                self.R.count('replica noise measurement failed: ' + type(e).__name__)
                self._noise = {}
                self.failed = True
        return float(self._noise.get(which, 0.0))

    def __call__(self, monitor, value, tol, which, key, msg, **info):
        if value <= tol:
            self.R.ok(monitor)
            return True
        nz = self.noise(which)
        if self.failed:
            # the replica of the very same call raised (numerically singular covariance / scatter): the case sits on a
            # rounding-decided edge and cannot be judged
            self.R.undecided(monitor, 'replica of the call raised (numerically singular case)')
            return True
        if value <= 100 * nz:
            self.R.undecided(monitor, 'ill-conditioned case (mismatch within 100x replica noise)')
            return True
        if nz > 100 * tol:
            # a 2^-50 relative perturbation of the input already moves the result by more than 100x the tolerance: the
            # trajectory amplifies rounding by > 1e9 and no finite multiple of the replica noise bounds a reordering of sums
            self.R.undecided(monitor, 'chaotic trajectory (replica noise > 100x tolerance)')
            return True
        if not self._confirmed:
            # before a mismatch is reported the noise estimate is confirmed on more replicas: rounding-decided branches (the sign of a
            # rounding-level eigenvalue deciding whether it is floored) make the replica noise bimodal - 3 of 12 replicas of one
            # single-precision case moved the posterior by 0.98, the first three by 2e-7
            self._confirmed = True
            try:
                more = self.noise_fn(range(100, 109)) or {}
                for k, v in more.items():
                    self._noise[k] = max(float(self._noise.get(k, 0.0)), float(v))
            except TypeError:
                pass                      # noise function without replica indices
            except Exception as e:
                self.R.count('replica noise measurement failed: ' + type(e).__name__)
                self.failed = True
            return self(monitor, value, tol, which, key, msg, **info)
        self.R.fail(monitor, key, msg + f' (replica noise {nz:.2e})', **info)
        return False

"""Always-armed contract monitors on the real functions (DESIGN 3.2). They observe every call any
workload makes and report under the property that owns them."""
import inspect

import numpy as np

from vmon import conds, instr, oracles


def _bind(f, args, kwargs):
    b = inspect.signature(f).bind(*args, **kwargs)
    b.apply_defaults()
    return b.arguments


# ---------------------------------------------------------------------------
# C01.M1: the shared posterior routine
# ---------------------------------------------------------------------------

def _post_lp2a(orig):
    def post(ctx, args, kwargs, res):
        R = ctx.R
        a = _bind(orig, args, kwargs)
        weight, log_pdf = np.asarray(a['weight']), np.asarray(a['log_pdf'])
        mask, eps = a['source_activity_mask'], a['affiliation_eps']
        R.seen('C01.M1')
        if not (np.isfinite(log_pdf).all() and np.isfinite(weight).all()) or (weight < 0).any():
            R.count('C01.M1:nonfinite-input(attributed to caller)')
            return
        # float range of the routine: if in some column every class that may receive mass (active, weight > 0)
        # lies more than 700 nats below the column maximum, the un-normalised masses underflow; no
        # model of the library produces such log-densities together with a mask (cACG log-density range
        # is bounded by 2 D log(1/floor)); counted, not judged
        with np.errstate(divide='ignore'):
            act = np.broadcast_to(weight > 0, np.broadcast_shapes(weight.shape, log_pdf.shape))
            if mask is not None:
                act = act & np.broadcast_to(mask, np.broadcast_shapes(act.shape, np.shape(mask)))
                lpb = np.broadcast_to(log_pdf, act.shape)
            else:
                lpb = np.broadcast_to(log_pdf, act.shape)
            top_act = np.where(act, lpb, -np.inf).max(axis=-2)
            top = lpb.max(axis=-2)
            lim = -0.95 * float(np.log(np.finfo(log_pdf.dtype if log_pdf.dtype.kind == 'f' else np.float64).tiny))
            under = np.isfinite(top_act) & (top - top_act > lim)
        if under.any():
            R.count('C01.M1:outside float range (dominant class inactive by more than the exp range of the dtype)')
            return
        if mask is None:
            shape = np.broadcast_shapes(weight.shape, log_pdf.shape)
        else:
            shape = np.broadcast_shapes(weight.shape, log_pdf.shape, np.shape(mask))
        ok = conds.check_affiliation(R, 'C01.M1', res, shape=shape, eps=eps, mask=mask, active=(weight > 0),
                                     key='posterior-routine', where='log_pdf_to_affiliation')
        if not ok:
            return
        with np.errstate(divide='ignore'):
            ref = oracles.log_softmax_posterior(np.log(weight.astype(np.float64)), log_pdf, mask)
        if eps:
            ref = np.clip(ref, eps, 1 - eps)
        tol = 1e-9 if res.dtype == np.float64 else 1e-5
        # columns whose total un-normalised mass underflows (all active classes are > 700 nats below an
        # inactive/zero-weight class) are outside float range of the max-subtraction trick: count
        dev = float(np.abs(res - ref).max()) if res.size else 0.0
        R.check('C01.M1', dev <= tol, 'posterior-routine/bayes', f'log_pdf_to_affiliation differs from log-domain Bayes rule by {dev:.3e}', prop='C01', dev=dev)
    return post


# ---------------------------------------------------------------------------
# C14: mappings are permutations; apply_mapping only reorders
# ---------------------------------------------------------------------------

def _post_mapping(orig):
    def post(ctx, args, kwargs, res):
        R = ctx.R
        a = _bind(orig, args, kwargs)
        sm = np.asanyarray(a['score_matrix'])
        R.seen('C14.perm')
        alg = a['algorithm']
        K = sm.shape[-1]
        R.check('C14.perm', res.shape == (K, *sm.shape[:-2]) and conds.is_perm_columns(res),
                f'score-assignment/{alg}/{sm.dtype.kind}/not-a-permutation',
                f'_mapping_from_score_matrix({alg}) returned a non-permutation column', prop='C14',
                score=sm if sm.size <= 24 else None, mapping=res if res.size <= 24 else None, dtype=str(sm.dtype))
    return post


def _post_apply(orig):
    def post(ctx, args, kwargs, res):
        R = ctx.R
        a = _bind(orig, args, kwargs)
        mask, mapping = np.asarray(a['mask']), np.asarray(a['mapping'])
        R.seen('C14.apply')
        K, F = mapping.shape
        if not conds.is_perm_columns(mapping):
            R.count('C14.apply:non-permutation mapping passed in')
            return
        ok = res.shape == mask.shape
        if ok:
            for f in range(F):
                if not np.array_equal(res[:, f], mask[mapping[:, f], f], equal_nan=True):
                    ok = False
                    break
        R.check('C14.apply', ok, 'apply_mapping/rows', 'apply_mapping result is not mask[mapping[k,f], f]', prop='C14')
    return post


# ---------------------------------------------------------------------------
# hook events: C01.M4 (in-loop affiliations) and C09 (in-loop models)
# ---------------------------------------------------------------------------

def on_em_iteration(ctx, p):
    R = ctx.R
    opts = getattr(ctx, 'case_opts', None) or {}
    it = p['iteration']
    aff = p.get('affiliation')
    # domain of C01 / C09: every class keeps (saliency weighted) mass; once a class has lost it the rest of this
    # fit is outside the stated domain and is not judged
    if it == 0:
        ctx.domain_left = False
    if aff is not None and not getattr(ctx, 'domain_left', False):
        a = np.asarray(aff, dtype=np.float64)
        sal = opts.get('saliency')
        if sal is not None and np.shape(sal) == a.shape[:-2] + a.shape[-1:]:
            a = a * np.asarray(sal)[..., None, :]
        with np.errstate(all='ignore'):
            mass = a.sum(axis=-1)
        if not np.isfinite(mass).all() or mass.min() <= 1e-12 * a.shape[-1]:
            ctx.domain_left = True
            R.count('trace: a class lost all its mass (rest of the fit not judged)')
    if getattr(ctx, 'domain_left', False):
        return
    # a class with exactly zero prior weight somewhere (frame-wise tied weights from a hard start) is "a class without
    # mass" for those observations: the posterior routine's own contract (C01.M1) judges such calls with its float-range
    # guard; the trace check does not demand normalisation there
    zero_prior = bool(getattr(ctx, 'prev_zero_weight', False))
    try:
        ctx.prev_zero_weight = bool((np.asarray(p['model'].weight, dtype=float) == 0).any())
    except Exception:
        ctx.prev_zero_weight = False
    if it == 0:
        zero_prior = False
    if it >= 1 and aff is not None and opts.get('check_trace_affiliation', True):
        eps = opts.get('affiliation_eps')
        if eps is None:
            R.seen('C01.M4')
            if not np.isfinite(aff).all():
                R.fail('C01.M4', 'trace-affiliation/nonfinite', f'non-finite affiliation entering M-step {it}', prop='C01')
            elif aff.min() < 0 or aff.max() > 1 + 1e-12:
                R.fail('C01.M4', 'trace-affiliation/range', f'affiliation out of [0,1] entering M-step {it}', prop='C01')
            else:
                R.ok('C01.M4')
        else:
            mask = opts.get('mask')
            if mask is not None and opts.get('aligned'):
                # an inline aligner reorders the rows per frequency after the mask was applied: only
                # the column sums can be judged against the mask
                mask = np.broadcast_to(mask.any(axis=-2, keepdims=True), mask.shape)
            conds.check_affiliation(R, 'C01.M4', aff, eps=eps, mask=mask, key='trace-affiliation',
                                    where=f'iteration {it}', normalised=not zero_prior)
            if zero_prior:
                R.count('trace: preceding model has zero prior weights (normalisation not demanded)')
    if 'C09' in ctx.arm:
        from vmon import domain
        if ctx.case_opts is None:
            R.seen('C09.trace')
            domain._finite_fields(R, 'C09.trace', p['model'], f'iteration {it}')
        else:
            domain.check_model(R, p['model'], dict(opts, zero_columns_ok=True) if zero_prior else opts, monitor='C09.trace', where=f'iteration {it}')


def install(ctx, arm):
    ctx.arm = set(arm)
    ctx.case_opts = None
    import pb_bss.distribution.mixture_model_utils as mmu
    import pb_bss.permutation_alignment as pa
    if 'C01' in ctx.arm:
        o = mmu.log_pdf_to_affiliation
        instr.wrap_everywhere(ctx, o, instr.observed(ctx, 'log_pdf_to_affiliation', _post_lp2a(o)), 'log_pdf_to_affiliation')
    if 'C14' in ctx.arm:
        o = pa._mapping_from_score_matrix
        instr.wrap_everywhere(ctx, o, instr.observed(ctx, '_mapping_from_score_matrix', _post_mapping(o)), '_mapping_from_score_matrix')
        o = pa.apply_mapping
        instr.wrap_everywhere(ctx, o, instr.observed(ctx, 'apply_mapping', _post_apply(o)), 'apply_mapping')

"""C13 - beamforming helpers agree with their primitives and act per leading index."""
import numpy as np

from vmon import gen, instr

from vmon.scale import S

ID = 'C13'
RULE = ('cases = (a) every beamformer name accepted by get_bf_vector (parsed by the monitors own grammar: optional +ban, optional rank-one '
        'prefix, core, chN) against the explicit composition of the primitives (bitwise), (b) apply_beamforming_vector against w^H x '
        'per leading index, (c) every beamforming function on a stack of problems (0..2 extra leading axes) against its per-slice results, '
        '(d) phase_correction per leading index, (e) Souden / WMWF on singular and zero PSDs: finite, regular bins bit-identical to the '
        'same bins computed without singular neighbours; non-trivial = extra leading axes or singular bins present; distinct by (lane, name, D, F, lead)')
REACH_REQUIRED = {'stable_solve: per-matrix lstsq fallback': ('math/solve.py', r'C\[i\], \*_ = np\.linalg\.lstsq\(A\[i\], B\[i\]\)'),
                  'stable_solve: per-matrix solve after LinAlgError': ('math/solve.py', r'C\[i\] = np\.linalg\.solve\(A\[i\], B\[i\]\)')}
DECIDING = ['C13.wrapper', 'C13.apply', 'C13.stack', 'C13.phase', 'C13.singular']
MIN_DECIDED = {'quick': 300, 'thorough': 3000}
ARM = ()
ASSUMPTIONS = ['Souden / WMWF with automatic reference channel are global over bins by design and are only compared whole-to-whole']
CORES = ['pca', 'pca+mvdr', 'scaled_gev_atf+mvdr', 'mvdr_souden', 'rank1_pca+mvdr_souden', 'rank1_gev+mvdr_souden', 'gev', 'rank1_pca+gev',
         'rank1_gev+gev', 'wmwf', 'rank1_pca+wmwf', 'rank1_gev+wmwf', 'ch']


def plan(tier, seed):
    rng = np.random.default_rng([seed, 113])
    n = S(tier, 8, 80)
    cases, i = [], 0
    for core in CORES:
        for ban in (False, True):
            for r in range(n):
                D = int(rng.integers(2, 9))
                cases.append(dict(lane='wrapper', core=core if core != 'ch' else f'ch{int(rng.integers(0, D))}', ban=ban, D=D, F=int(rng.integers(1, 33)),
                                  explicit_ref=bool(rng.integers(0, 2)), rs=[seed, 13, i]))
                i += 1
    m = S(tier, 60, 600)
    for lane in ('apply', 'stack', 'phase', 'singular'):
        for r in range(m):
            nl = int(rng.integers(0, 3))
            cases.append(dict(lane=lane, D=int(rng.integers(2, 9)), F=int(rng.integers(1, 33)), lead=[int(rng.integers(1, 4)) for _ in range(nl)],
                              fn=['mvdr', 'souden', 'wmwf', 'gev', 'pca', 'ban', 'lcmv-free', 'gev_eig', 'rank1_pca', 'rank1_gev', 'condition', 'wmwf_fd'][int(rng.integers(0, 12))], rs=[seed, 14, i]))
            i += 1
    return cases


def run_case(case, R):
    with instr.fp_guard():
        globals()['run_' + case['lane']](case, R)


def psds(rng, D, lead, cond=100.0, rank=None):
    A = gen.cnormal(rng, (*lead, D, rank or D))
    Px = np.einsum('...ab,...cb->...ac', A, A.conj())
    Pn = gen.hpd(rng, D, cond=cond, lead=lead)
    return Px, Pn


def compose(name, ban, Px, Pn, kw, atf=None):
    """the composition of primitives spelled by the name, written out by hand (atf: options of the ATF / rank-one step)."""
    from pb_bss.extraction import beamformer as bf, beamformer_wrapper as bw

    class _Private:
        """every primitive call gets private copies (same memory layout) of its array arguments: the composition is one of values"""
        def __init__(self, mod):
            self.mod = mod

        def __getattr__(self, name):
            f = getattr(self.mod, name)
            return lambda *a, **k: f(*[np.copy(x, order='K') if isinstance(x, np.ndarray) else x for x in a], **k)
    bf, bw = _Private(bf), _Private(bw)
    atf = atf or {}
    parts = name.split('+')
    tgt = Px
    if parts[0] == 'rank1_pca':
        tgt = bw.get_pca_rank_one_estimate(Px, **atf)
        parts = parts[1:]
    elif parts[0] == 'rank1_gev':
        tgt = bw.get_gev_rank_one_estimate(Px, Pn, **atf)
        parts = parts[1:]
    core = '+'.join(parts)
    if core == 'pca':
        w = bf.get_pca_vector(tgt)
    elif core == 'pca+mvdr':
        w = bf.get_mvdr_vector(bf.get_pca_vector(tgt, **atf), Pn)
    elif core == 'scaled_gev_atf+mvdr':
        g = bf.get_gev_vector(tgt, Pn, **atf)
        w = bf.get_mvdr_vector(np.einsum('...dD,...D->...d', Pn, g), Pn)
    elif core == 'mvdr_souden':
        w = bf.get_mvdr_vector_souden(tgt, Pn, **kw)
    elif core == 'gev':
        w = bf.get_gev_vector(tgt, Pn)
    elif core == 'wmwf':
        w = bf.get_wmwf_vector(tgt, Pn, **kw)
    elif core.startswith('ch'):
        w = np.zeros(Px.shape[:-1])
        w[..., int(core[2:])] = 1
    else:
        raise ValueError(core)
    if ban:
        w = bf.blind_analytic_normalization(w, Pn)
    return w


def run_wrapper(case, R):
    from pb_bss.extraction import get_bf_vector
    rng = gen.rng_of(case)
    D, F = case['D'], case['F']
    Px, Pn = psds(rng, D, (F,), rank=int(rng.integers(1, D + 1)))
    Px = Px + 1e-9 * np.eye(D)
    lay = case['rs'][-1] % 4
    if lay in (1, 2):
        # statistics as the Hermitian-transpose idiom leaves them: same values up to rounding, every matrix stored column-major
        Px = np.conj(Px).swapaxes(-1, -2)
    if lay in (2, 3):
        Pn = np.conj(Pn).swapaxes(-1, -2)
    name = case['core'] + ('+ban' if case['ban'] else '')
    kw = {}
    atf = {}
    if case['rs'][-1] % 3 == 0:
        if case['core'].startswith('rank1_pca') or case['core'] == 'pca+mvdr':
            atf = dict(scaling=[None, 'trace', 'eigenvalue'][int(rng.integers(3))])
        elif case['core'].startswith('rank1_gev') or case['core'] == 'scaled_gev_atf+mvdr':
            atf = dict(use_eig=True)
    if case['explicit_ref']:
        if 'souden' in name:
            kw = dict(ref_channel=int(rng.integers(0, D)))
        elif 'wmwf' in name:
            kw = dict(reference_channel=int(rng.integers(0, D)), distortion_weight=float(rng.choice([0.0, 1.0, 3.5])))
    info = dict(name=name, D=D, F=F, kwargs=kw, atf_kwargs=atf, layout=['c', 'target-colmajor', 'both-colmajor', 'noise-colmajor'][lay])
    try:
        ref = compose(case['core'], case['ban'], Px, Pn, dict(kw), atf)
    except Exception as e:
        if not instr.is_library_exception(e):
            raise
        R.undecided('C13.wrapper', f'primitive composition raised {type(e).__name__}')
        R.count(f'composition of {name} raised {type(e).__name__}: {str(e)[:80]}')
        return
    try:
        got = get_bf_vector(name, np.copy(Px, order='K'), np.copy(Pn, order='K'), **dict(kw), **({'atf_kwargs': dict(atf)} if atf else {}))
    except Exception as e:
        if not instr.is_library_exception(e):
            raise
        R.fail('C13.wrapper', f'wrapper/raised/{case["core"].rstrip("0123456789")}', f'get_bf_vector({name!r}) raised {type(e).__name__} although the primitives succeed: {str(e)[:100]}', **info)
        return
    same = got.shape == ref.shape and np.array_equal(got, ref)
    R.check('C13.wrapper', same, f'wrapper/differs/{case["core"].rstrip("0123456789")}{"+ban" if case["ban"] else ""}', f'get_bf_vector({name!r}) differs from the composition of its primitives (max dev {float(np.abs(got - ref).max()) if got.shape == ref.shape else "shape"})', **info)
    R.mark_nontrivial('wrapper', name.rstrip('0123456789'), bool(kw))
    R.sample(info)


def run_apply(case, R):
    from pb_bss.extraction import apply_beamforming_vector
    rng = gen.rng_of(case)
    D, lead = case['D'], (*case['lead'], case['F'])
    T = int(rng.integers(1, 20))
    w = gen.cnormal(rng, (*lead, D))
    x = gen.cnormal(rng, (*lead, D, T))
    variant = ['complex', 'complex', 'real-x', 'real-w', 'c64-x'][case['rs'][-1] % 5]
    if variant == 'real-x':
        x = x.real.copy()                      # a real-valued observation (time-domain-like / DC bin) with a complex vector
    elif variant == 'real-w':
        w = w.real.copy()
    elif variant == 'c64-x':
        x = x.astype(np.complex64)
    wb, xb = w.copy(), x.copy()
    got = np.asarray(apply_beamforming_vector(w, x))
    ref = np.empty((*lead, T), dtype=complex)
    for idx in np.ndindex(*lead):
        for t in range(T):
            ref[idx][t] = np.vdot(w[idx], x[idx][:, t])
    dv = float(np.abs(got - ref).max()) if got.shape == ref.shape else np.inf
    R.check('C13.apply', got.shape == ref.shape and dv <= (1e-12 if variant != 'c64-x' else 1e-5) * (1 + float(np.abs(ref).max())), 'apply/value', f'apply_beamforming_vector deviates from w^H x by {dv:.3e}', lead=list(lead), D=D, variant=variant)
    R.check('C13.apply', np.array_equal(w, wb) and np.array_equal(x, xb), 'apply/purity', 'arguments modified')
    R.mark_nontrivial('apply', D, list(lead), T > 1)


def run_stack(case, R):
    from pb_bss.extraction import beamformer as bf, beamformer_wrapper as bw
    rng = gen.rng_of(case)
    D, F = case['D'], case['F']
    lead = tuple(case['lead'])
    full = (*lead, F)
    Px, Pn = psds(rng, D, full, rank=int(rng.integers(1, D + 1)))
    Px = Px + 1e-9 * np.eye(D)
    fn = case['fn']
    ref_ch = int(rng.integers(0, D))
    a = gen.cnormal(rng, (*full, D))
    if rng.uniform() < 0.4:
        # problems of very different level in one stack (a loud and a nearly silent bin / recording): no quantity of one problem may
        # be measured against the others
        lvl = 10 ** rng.uniform(-12, 12, size=(*full, 1, 1))
        Px, Pn = Px * lvl, Pn * lvl
        a = a * 10 ** rng.uniform(-6, 6, size=(*full, 1))
    calls = {
        'mvdr': (lambda px, pn, av: bf.get_mvdr_vector(av, pn), 'bins'),       # noise psd (bins, D, D), atf (..., bins, D)
        'souden': (lambda px, pn, av: bf.get_mvdr_vector_souden(px, pn, ref_channel=ref_ch), 'any'),
        'wmwf': (lambda px, pn, av: bf.get_wmwf_vector(px, pn, reference_channel=ref_ch, distortion_weight=1.5), 'any'),
        'wmwf_fd': (lambda px, pn, av: bf.get_wmwf_vector(px, pn, reference_channel=ref_ch, distortion_weight='frequency_dependent'), 'any'),
        'gev': (lambda px, pn, av: bf.get_gev_vector(px, pn), 'any'),
        'gev_eig': (lambda px, pn, av: bf.get_gev_vector(px, pn, use_eig=True), 'any'),
        'pca': (lambda px, pn, av: bf.get_pca_vector(px, scaling='trace'), 'any'),
        'ban': (lambda px, pn, av: bf.blind_analytic_normalization(av, pn), 'any'),
        'lcmv-free': (lambda px, pn, av: bf.condition_covariance(px, 0.1), 'any'),
        'condition': (lambda px, pn, av: bf.condition_covariance(pn, 2.0), 'any'),
        'rank1_pca': (lambda px, pn, av: bw.get_pca_rank_one_estimate(px), 'any'),
        'rank1_gev': (lambda px, pn, av: bw.get_gev_rank_one_estimate(px, pn), 'any'),
    }
    f, mode = calls[fn]
    info = dict(fn=fn, D=D, F=F, lead=list(lead))
    if fn == 'mvdr':
        # documented layout: atf (..., bins, sensors), noise psd (bins, sensors, sensors): stack over sources
        Pn_ = Pn[(0,) * len(lead)]
        try:
            got = f(None, Pn_, a)
        except Exception as e:
            if not instr.is_library_exception(e):
                raise
            R.fail('C13.stack', 'stack/raised/mvdr', f'get_mvdr_vector raised {type(e).__name__} on atf {a.shape}: {str(e)[:100]}', **info)
            return
        ok = got.shape == a.shape
        dv = 0.0
        if ok:
            for idx in np.ndindex(*lead):
                for fi in range(F):
                    one = f(None, Pn_[fi:fi + 1], a[idx][fi:fi + 1])
                    dv = max(dv, float(np.abs(got[idx][fi] - one[0]).max() / np.abs(one).max()))
        R.check('C13.stack', ok and dv <= 1e-10, 'stack/mvdr', f'stacked get_mvdr_vector differs from per-problem results by {dv:.3e}', dev=dv, **info)
    else:
        try:
            got = f(Px, Pn, a)
        except Exception as e:
            if not instr.is_library_exception(e):
                raise
            R.fail('C13.stack', f'stack/raised/{fn}', f'{fn} raised {type(e).__name__} on a stack {full}: {str(e)[:100]}', **info)
            return
        dv, ok = 0.0, True
        for idx in np.ndindex(*full):
            sl = (slice(None),) if False else None
            try:
                one = f(Px[idx][None], Pn[idx][None], a[idx][None])[0]
            except Exception as e:
                if not instr.is_library_exception(e):
                    raise
                R.undecided('C13.stack', 'single problem raised')
                return
            g = got[idx]
            if g.shape != one.shape:
                ok = False
                break
            if fn in ('gev', 'gev_eig', 'pca'):
                # eigenvectors are defined up to a phase (sign) choice of the solver: compare the projectors
                P1 = np.outer(g, g.conj()); P2 = np.outer(one, one.conj())
                dv = max(dv, float(np.abs(P1 - P2).max() / np.abs(P2).max()))
            else:
                dv = max(dv, float(np.abs(g - one).max() / max(np.abs(one).max(), 1e-300)))
        R.check('C13.stack', ok and dv <= 1e-9, f'stack/{fn}', f'{fn} on a stack differs from the per-problem results by {dv:.3e}', dev=dv, **info)
    if lead:
        R.mark_nontrivial('stack', fn, D, min(F, 2), list(lead))


def run_phase(case, R):
    from pb_bss.extraction.beamformer import phase_correction
    rng = gen.rng_of(case)
    D, F, lead = case['D'], case['F'], tuple(case['lead'])
    w = gen.cnormal(rng, (*lead, F, D))
    special = case['rs'][-1] % 4 == 0 and F >= 3
    if special:
        # exactly zero inner products between consecutive bins: a zero bin (what Souden / WMWF return for a zero PSD) and
        # exactly orthogonal one-hot vectors
        w[..., 1, :] = 0
        if F >= 5 and D >= 2:
            w[..., 3, :] = 0; w[..., 3, 0] = 1.0
            w[..., 4, :] = 0; w[..., 4, 1] = 1.0
    wb = w.copy()
    info = dict(D=D, F=F, lead=list(lead), zero_inner_products=special)
    try:
        v = phase_correction(w if rng.uniform() < 0.5 else w.tolist())
    except Exception as e:
        if not instr.is_library_exception(e):
            raise
        R.fail('C13.phase', 'phase/raised', f'{type(e).__name__}: {str(e)[:100]}', **info)
        return
    R.check('C13.phase', np.array_equal(w, wb), 'phase/purity', 'phase_correction modified its argument')
    mag = float(np.abs(np.abs(v) - np.abs(w)).max())
    R.check('C13.phase', v.shape == w.shape and mag <= 1e-12, 'phase/magnitudes', f'magnitudes changed by {mag:.3e}', **info)
    if F > 1:
        ip = np.einsum('...fd,...fd->...f', v[..., 1:, :].conj(), v[..., :-1, :])
        sc = np.where(np.abs(ip) > 0, np.abs(ip), 1.0)        # a zero inner product is trivially aligned
        bad = float((np.abs(ip.imag) / sc).max())
        neg = float((-ip.real / sc).max())
        R.check('C13.phase', bad <= 1e-9 and neg <= 0, f'phase/not-aligned/{"lead" if lead else "nolead"}', f'w_f^H w_(f-1) is not real non-negative for every leading index (imag/abs {bad:.3e}, -real/abs {neg:.3e})', **info)
        for idx in np.ndindex(*lead):
            one = phase_correction(w[idx])
            if not np.allclose(one, v[idx], rtol=1e-12, atol=1e-14):
                R.fail('C13.phase', 'phase/stack-vs-slice', 'phase_correction of a stack differs from the per-slice result', **info)
                break
        else:
            R.ok('C13.phase')
    if lead and F > 2:
        R.mark_nontrivial('phase', D, list(lead))
    elif F > 2:
        R.mark_nontrivial('phase', D, 'nolead')


def run_singular_stack(case, R):
    """exactly singular / zero noise PSDs somewhere in a stack with extra leading axes: every problem must equal its stand-alone result"""
    from pb_bss.extraction import beamformer as bf
    rng = gen.rng_of(case)
    D, F = case['D'], max(2, min(case['F'], 8))
    lead = tuple(case['lead']) or (2,)
    Px, Pn = psds(rng, D, (*lead, F), rank=int(rng.integers(1, D + 1)))
    Pn = Pn.copy()
    if case['rs'][-1] % 2 == 0:
        # stationary / white noise: the same regular noise PSD in every bin and problem (only the targets differ)
        Pn[...] = Pn[(0,) * (len(lead) + 1)] if rng.uniform() < 0.5 else np.eye(D) * float(10 ** rng.uniform(-2, 2))
    idx = tuple(int(rng.integers(n)) for n in (*lead, F))
    Pn[idx] = 0
    if rng.uniform() < 0.5:
        idx2 = tuple(int(rng.integers(n)) for n in (*lead, F))
        Pn[idx2][0, :] = 0; Pn[idx2][:, 0] = 0
    ref = int(rng.integers(0, D))
    lay = ['c', 'moved', 'c', 'fortran'][case['rs'][-1] % 4]
    if lay == 'moved':
        # the stack as np.moveaxis leaves it (statistics estimated as (F, K, D, D) and viewed as (K, F, D, D)): same values, strided memory
        Px = np.moveaxis(np.ascontiguousarray(np.moveaxis(Px, 0, len(lead))), len(lead), 0)
        Pn = np.moveaxis(np.ascontiguousarray(np.moveaxis(Pn, 0, len(lead))), len(lead), 0)
    elif lay == 'fortran':
        Px, Pn = np.asfortranarray(Px), np.asfortranarray(Pn)
    info = dict(D=D, F=F, lead=list(lead), layout=lay)
    for which, f in (('souden', lambda px, pn: bf.get_mvdr_vector_souden(px, pn, ref_channel=ref)),
                     ('wmwf', lambda px, pn: bf.get_wmwf_vector(px, pn, reference_channel=ref, distortion_weight=1.0))):
        try:
            w = f(Px, Pn)
        except Exception as e:
            if not instr.is_library_exception(e):
                raise
            R.fail('C13.singular', f'singular-stack/raised/{which}', f'{which} raised {type(e).__name__} on a stack with an exactly singular bin', **info)
            continue
        dv = 0.0
        for li in np.ndindex(*lead):
            one = f(Px[li], Pn[li])
            dv = max(dv, float(np.abs(w[li] - one).max() / max(float(np.abs(one).max()), 1e-300)))
        R.check('C13.singular', np.isfinite(w).all() and dv <= 1e-9, f'singular-stack/{which}', f'{which} on a stack with an exactly singular bin differs from the per-problem results by {dv:.3e}', dev=dv, **info)
    R.mark_nontrivial('singular-stack', D, F, list(lead))


def run_singular(case, R):
    if case['rs'][-1] % 3 == 0:
        return run_singular_stack(case, R)
    from pb_bss.extraction import beamformer as bf
    rng = gen.rng_of(case)
    D, F = case['D'], max(2, case['F'])
    Px, Pn = psds(rng, D, (F,), rank=int(rng.integers(1, D + 1)))
    real_noise = bool(rng.uniform() < 0.3)
    if real_noise:
        Pn = np.ascontiguousarray(gen.hpd(rng, D, cond=100.0, lead=(F,), real=True))        # float64 noise PSD, complex target PSD
    if not real_noise and case['rs'][-1] % 2 == 0:
        Pn = np.broadcast_to(Pn[0], Pn.shape).copy()          # stationary noise: one regular PSD for all bins
    c64 = (not real_noise) and case['rs'][-1] % 5 == 1
    if c64:
        Px, Pn = Px.astype(np.complex64), Pn.astype(np.complex64)        # single-precision PSDs (zero bins must stay zero vectors here too)
    sing = rng.uniform(size=F) < 0.35
    sing[int(rng.integers(F))] = True
    sing[int(rng.integers(F))] = False
    kinds = rng.integers(0, 4, size=F)
    Pn2, Px2 = Pn.copy(), Px.copy()
    for f in np.nonzero(sing)[0]:
        if kinds[f] == 0:
            Pn2[f] = 0
        elif kinds[f] == 1:
            Pn2[f] = 0; Px2[f] = 0
        elif kinds[f] == 2:
            v = gen.cnormal(rng, (D, 1)) if not real_noise else rng.standard_normal((D, 1)); Pn2[f] = v @ v.conj().T
        else:
            Pn2[f, 0, :] = 0; Pn2[f, :, 0] = 0
    ref = int(rng.integers(0, D))
    info = dict(D=D, F=F, singular_bins=int(sing.sum()), real_noise_psd=real_noise, single_precision=bool(c64))
    for which, f in (('souden', lambda px, pn: bf.get_mvdr_vector_souden(px, pn, ref_channel=ref)),
                     ('wmwf', lambda px, pn: bf.get_wmwf_vector(px, pn, reference_channel=ref, distortion_weight=1.0)),
                     ('souden-auto', lambda px, pn: bf.get_mvdr_vector_souden(px, pn)),
                     ('wmwf-auto', lambda px, pn: bf.get_wmwf_vector(px, pn))):
        try:
            w = f(Px2, Pn2)
        except AssertionError as e:
            # the automatic reference selection asserts a finite SNR: same mechanism as the non-finite vectors
            has2 = bool((sing & (kinds == 2)).any())
            R.fail('C13.singular', f'singular/raised/{which.split("-")[0]}/' + ('undetected-rank-deficient-noise-psd' if has2 else 'exactly-singular-or-regular-bin'),
                   f'{which} raised AssertionError (non-finite SNR) with singular/zero PSDs', **info)
            continue
        except Exception as e:
            if not instr.is_library_exception(e):
                raise
            R.fail('C13.singular', f'singular/raised/{which}', f'{which} raised {type(e).__name__} with singular/zero PSDs: {str(e)[:100]}', **info)
            continue
        badbins = np.nonzero(~np.isfinite(w).all(-1))[0]
        # mechanism key: bins whose noise PSD is rank deficient but non-zero without an exactly zero pivot (kind 2) are
        # not detected as singular by LAPACK; exactly singular ones (zero matrix, zero row/column) take the lstsq fallback
        mech = 'undetected-rank-deficient-noise-psd' if (len(badbins) and all(sing[b] and kinds[b] == 2 for b in badbins)) else 'exactly-singular-or-regular-bin'
        R.check('C13.singular', len(badbins) == 0, f'singular/nonfinite/{which.split("-")[0]}/{mech}', f'{which} returns non-finite entries in bins {badbins.tolist()[:6]} (singular kinds {[int(kinds[b]) for b in badbins][:6]})', **info)
        if which in ('souden', 'wmwf') and np.isfinite(w).all():
            # and the values of the regular bins are the exact solution Phi_nn^-1 Phi_xx e_ref / (...)
            g0 = np.nonzero(~sing)[0]
            phi = np.linalg.solve(Pn2[g0].astype(complex), Px2[g0])
            lam = np.trace(phi, axis1=-1, axis2=-2)[..., None, None]
            refv = (phi / lam)[..., ref] if which == 'souden' else (phi / (1.0 + lam))[..., ref]
            dvv = float(np.abs(w[g0] - refv).max() / np.abs(refv).max())
            R.check('C13.singular', dvv <= (1e-8 if not c64 else 1e-2), f'singular/regular-bins-wrong/{which}', f'{which}: regular bins next to singular ones deviate from the direct solution by {dvv:.3e}', **info)
        if which in ('souden', 'wmwf'):
            good = ~sing
            wr = f(Px2[good], Pn2[good])
            same = np.array_equal(w[good], wr)
            close = np.allclose(w[good], wr, rtol=1e-12 if not c64 else 1e-4, atol=0)
            if same:
                R.ok('C13.singular')
            elif close:
                R.count('regular bins equal only up to rounding next to singular neighbours')
                R.ok('C13.singular')
            else:
                R.fail('C13.singular', f'singular/regular-bins-affected/{which}', f'{which}: bins with regular matrices change when singular neighbours are present (max dev {float(np.abs(w[good] - wr).max()):.3e})', **info)
    R.mark_nontrivial('singular', D, F, int(sing.sum()))

"""C04 - spatial models depend only on the direction of each observation vector."""
import numpy as np

from vmon import diff, gen, instr, models, oracles, scen

from vmon.scale import S

ID = 'C04'
RULE = ('cases = pairs (y, c*y) with per-observation gain fields 1e-100 <= |c| <= 1e100 and arbitrary phase (positive real '
        'gains for the vMF families) pushed through the same entry point: mixture fit/predict/log_likelihood (per '
        'iteration via the hook), single-distribution trainers and log_pdf; compared through gauge-free functionals; '
        'non-trivial = gain field spanning >= 50 decades with non-constant phase; distinct by (entry point, gain kind, '
        'options, K, D, lead)')
DECIDING = ['C04.posterior', 'C04.params', 'C04.trace', 'C04.logpdf', 'C04.trainer']
MIN_DECIDED = {'quick': 150, 'thorough': 1500}
NEEDS_HOOK = True
CASE_TIMEOUT = {'quick': 240, 'thorough': 900}
ASSUMPTIONS = ['ComplexWatson/ComplexBingham.log_pdf are documented for unit-norm input: they get unit-modulus gains directly and full gains through every entry point that projects (fit, predict, mixture trainers)']
GK = ['iid', 'ramp', 'alternate', 'extreme_one', 'near_one']


def plan(tier, seed):
    rng = np.random.default_rng([seed, 104])
    n = S(tier, 26, 260)
    pick = lambda xs: xs[int(rng.integers(len(xs)))]
    cases, i = [], 0
    for kind in models.KINDS:
        for r in range(n if kind != 'cbmm' else max(4, n // 6)):
            K = int(rng.integers(2, 5)); D = int(rng.integers(2, 9))
            if kind == 'cbmm':
                K = int(rng.integers(2, 4)); D = int(rng.integers(2, 5))
            lead = [pick([1, 3])] if kind in models.INTEGRATION else (pick([[], [3], [2, 2]]) if kind != 'cbmm' else pick([[], [2]]))
            N = int(rng.integers(3 * K + D, 10 * K + D + 8))
            o = scen.sample_opts(rng, kind, lead)
            if o.get('saliency') == 'zeros':
                o['saliency'] = 'pos'
            if o.get('fixed_covariance'):
                o.pop('fixed_covariance')
            iters = int(pick([1, 2, 3, 5])) if kind != 'cbmm' else int(pick([1, 2]))
            stream = 'spatial'
            if kind == 'vmfcacgmm' and r % 2:
                stream = 'embedding'
            if kind in ('gmm',) or (kind == 'gcacgmm' and False):
                continue
            cases.append(dict(lane='mixture', kind=kind, cls='gauss', K=K, N=N, D=D, lead=lead, init=pick(['dirichlet:1', 'blur:0.3', 'onehot', 'num_classes']),
                              iters=iters, opts=o, gain=pick(GK), decades=float(pick([100, 100, 60, 30])), stream=stream, layout=pick(['c', 'c', 'tview', 'f']),
                              e_dtype='f32' if (kind in models.INTEGRATION and stream == 'spatial' and rng.uniform() < 0.3) else 'f64', sparse=bool(rng.uniform() < 0.25), rs=[seed, 4, i]))
            if kind in ('cacgmm', 'cwmm') and r % 7 == 3:
                # single precision end to end: gains as far as squares of float32 allow (|c y| up to ~1e17)
                cases[-1].update(dtype='c64', decades=float(pick([15, 17, 17.5, 17.5])), e_dtype='f64')       # |c y|^2 D must stay below the float32 maximum 3.4e38
            i += 1
    m = S(tier, 25, 250)
    for fam in ('cacg', 'watson', 'bingham', 'vmf'):
        for r in range(m if fam != 'bingham' else max(5, m // 4)):
            D = int(rng.integers(2, 9)) if fam != 'bingham' else int(rng.integers(2, 6))
            cases.append(dict(lane='dist', fam=fam, D=D, N=int(rng.integers(D + 2, 40)) if (fam in ('bingham', 'cacg') or rng.uniform() > 0.15) else int(pick([1, 1, 2])), lead=pick([[], [2], [2, 3]]) if fam != 'bingham' else pick([[], [2]]),
                              gain=pick(GK), decades=float(pick([100, 100, 60])), saliency=bool(rng.integers(0, 2)), sparse=bool(rng.uniform() < 0.25), rs=[seed, 5, i]))
            i += 1
    return cases


def run_case(case, R):
    with instr.fp_guard():
        (run_mixture if case['lane'] == 'mixture' else run_dist)(case, R)


def near_one(rng, shape, real_positive):
    mag = 1 + 5e-6 * rng.uniform(-1, 1, size=shape)
    return mag if real_positive else mag * np.exp(2j * np.pi * rng.uniform(size=shape))


def sparsify(rng, y):
    """set about a fifth of the entries to exactly zero, keeping at least one non-zero entry per vector (no zero frames)"""
    y = y.copy()
    z = rng.uniform(size=y.shape) < 0.2
    keep = rng.integers(0, y.shape[-1], size=y.shape[:-1])
    np.put_along_axis(z, keep[..., None], False, axis=-1)
    y[z] = 0
    return y


def scaled_data(s, case, rng):
    if case.get('sparse') and case['stream'] == 'spatial':
        # observation vectors with exactly vanishing components (a muted channel in some frames): still no zero frame
        s.data = dict(s.data, y=sparsify(rng, s.data['y']))
    d = dict(s.data)
    y = s.data['y']
    if case['gain'] == 'near_one':
        # (almost) unit-norm observations with gains within 5e-6 of one: "already normalised" shortcuts take this path
        if case['stream'] == 'embedding':
            s.data['e'] = oracles.unit(s.data['e']); d['e'] = s.data['e']
            g = near_one(rng, s.data['e'].shape[:-1], True)
            d['e'] = s.data['e'] * g[..., None]
            return d, g
        s.data['y'] = oracles.unit(y).astype(y.dtype); y = s.data['y']; d['y'] = y
        g = near_one(rng, y.shape[:-1], s.kind in models.REAL)
        d['y'] = y * g[..., None]
        return d, g
    if case['stream'] == 'embedding':
        g = gen.gains(rng, s.data['e'].shape[:-1], decades=case['decades'], kind=case['gain'], real_positive=True)
        d['e'] = s.data['e'] * g[..., None]
        return d, g
    real = s.kind in models.REAL
    g = gen.gains(rng, y.shape[:-1], decades=case['decades'], kind=case['gain'], real_positive=real)
    d['y'] = (y * g[..., None]).astype(y.dtype)          # stays in the precision of the observation
    return d, g


def run_mixture(case, R):
    s = scen.build(case)
    rng = np.random.default_rng([*case['rs'], 99])
    kind = s.kind
    d2, g = scaled_data(s, case, rng)
    single = case.get('dtype') == 'c64'
    tol_post = 1e-5 if kind == 'cbmm' else (2e-3 if single else 1e-9)
    rtol_par = 1e-4 if kind == 'cbmm' else (2e-2 if single else 1e-8)
    def run(data):
        s2 = scen.Scenario(); s2.__dict__.update(s.__dict__); s2.data = data
        try:
            with instr.options(**s.copts), instr.capture() as ev:
                model = scen.fit(s2)
                pk = {'source_activity_mask': s.mask} if (s.mask is not None and kind == 'cacgmm') else {}
                post = models.predict(kind, model, data, **pk)
                # log_likelihood has no mask argument: only meaningful for fits without a mask
                ll = float(model.log_likelihood(data['y'])) if (kind == 'cacgmm' and s.mask is None) else None
                fp = scen.fit_predict(s2)
        except Exception as e:
            if not instr.is_library_exception(e):
                raise
            return ('raised', type(e).__name__, str(e)[:100])
        return ('ok', model, post, ev, ll, fp)

    res = [run(s.data), run(d2)]
    noise = {}
    confirmed = []

    def replica_noise(reps=range(3)):
        # DESIGN 4.3: rounding sensitivity of this very case, measured on replicas with inputs * (1 + 2^-50 u)
        if noise and len(reps) <= 3:
            return noise
        for k_ in ('post', 'par', 'll', 'trace'):
            noise.setdefault(k_, 0.0)
        for rep in reps:
            rr = np.random.default_rng([*case['rs'], 7, rep])
            dd = dict(s.data)
            dd['y'] = (s.data['y'] * (1 + 2.0 ** (-50 if s.data['y'].dtype == np.complex128 or s.data['y'].dtype == np.float64 else -21) * rr.uniform(-1, 1, size=s.data['y'].shape))).astype(s.data['y'].dtype)      # a few ulps of the data's own precision
            out = run(dd)
            if out[0] != 'ok' or res[0][0] != 'ok':
                continue
            noise['post'] = max(noise['post'], float(np.abs(out[2] - res[0][2]).max()))
            noise['par'] = max(noise['par'], diff.compare(diff.functionals(out[1]), diff.functionals(res[0][1]), rtol=rtol_par, atol=rtol_par)[0])
            if out[4] is not None:
                noise['ll'] = max(noise['ll'], abs(out[4] - res[0][4]))
            for a, b in zip(out[3][1:], res[0][3][1:]):
                noise['trace'] = max(noise['trace'], float(np.abs(a['affiliation'] - b['affiliation']).max()))
        return noise

    def pa_tie():
        # built-in spatial/spectral alignment: the permutation is chosen per bin by comparing auxiliary values; exchanging the
        # spatial models of two classes that have lost all mass in that bin (posterior mass < 1e-9) changes the auxiliary value by
        # less than its rounding error, so rounding picks the pairing and with it the (rounding-level) posteriors from which the
        # parameters of these empty classes are formed
        if not (kind in models.INTEGRATION and s.opts.get('inline_permutation_alignment')):
            return False
        for r in res:
            if r[0] != 'ok':
                continue
            for e in r[3]:
                mass = np.asarray(e['affiliation']).sum(-1)          # (F, K)
                if ((mass < 1e-9).sum(-1) >= 2).any():
                    return True
        return False

    def judge(monitor, value, tol, which, key, msg, **info):
        if value <= tol:
            R.ok(monitor)
            return
        if pa_tie():
            R.undecided(monitor, 'built-in alignment tie between two classes without mass in one bin')
            return
        nz = replica_noise()[which]
        if not (value <= 100 * nz or nz > 100 * tol) and not confirmed:
            # rounding-decided branches (the sign of a rounding-level eigenvalue deciding whether it is floored) make the replica noise
            # bimodal: a mismatch is reported only if nine further replicas agree with the first three
            confirmed.append(True)
            nz = replica_noise(range(100, 109))[which]
        if value <= 100 * nz or nz > 100 * tol:
            R.undecided(monitor, 'ill-conditioned case (mismatch within 100x replica noise, or replica noise > 100x tolerance)')
            return
        R.fail(monitor, key, msg + f' (replica noise {nz:.2e})', **info)
    if res[0][0] == 'raised' and res[1][0] == 'raised':
        R.count(f'both raised {res[0][1]}')
        R.undecided('C04.posterior', 'both calls raised')
        return
    if res[0][0] != res[1][0]:
        # is raising decided by rounding (numerically singular scatter / covariance)? replicas of the base call tell
        flips = 0
        for rep in range(4):
            rr = np.random.default_rng([*case['rs'], 5, rep])
            dd = dict(s.data)
            dd['y'] = (s.data['y'] * (1 + 2.0 ** (-50 if s.data['y'].dtype == np.complex128 or s.data['y'].dtype == np.float64 else -21) * rr.uniform(-1, 1, size=s.data['y'].shape))).astype(s.data['y'].dtype)      # a few ulps of the data's own precision
            flips += run(dd)[0] != res[0][0]
        exc = res[0][1] if res[0][0] == 'raised' else res[1][1]
        msg = res[0][2] if res[0][0] == 'raised' else res[1][2]
        if flips or exc == 'LinAlgError' or 'ill-defined' in msg or (exc == 'AssertionError' and 'e-1' in msg):
            # numerically singular scatter / covariance: eigenvalues of +-1e-17 decide whether the library's own checks raise
            R.undecided('C04.posterior', 'raising is decided by rounding (numerically singular scatter)')
            return
        R.fail('C04.posterior', f'raise-asymmetry/{kind}', f'{kind}: one of (y, c*y) raised {res[0][1:] if res[0][0]=="raised" else res[1][1:]}, the other returned', opts=case['opts'])
        return
    _, m1, p1, ev1, l1, f1 = res[0]
    _, m2, p2, ev2, l2, f2 = res[1]
    dfp = float(np.abs(f1 - f2).max())
    judge('C04.posterior', dfp, tol_post, 'post', f'fit_predict/{kind}/{case["stream"]}', f'{kind}.fit_predict changes by {dfp:.3e} under per-observation rescaling ({case["stream"]} stream)',
          dev=dfp, opts=case['opts'], gain=case['gain'])
    dev = float(np.abs(p1 - p2).max())
    judge('C04.posterior', dev, tol_post, 'post', f'posterior/{kind}/{case["stream"]}', f'{kind}: posterior changes by {dev:.3e} under per-observation rescaling ({case["stream"]} stream)',
          dev=dev, opts=case['opts'], gain=case['gain'])
    w, name = diff.compare(diff.functionals(m1), diff.functionals(m2), rtol=rtol_par, atol=rtol_par)
    judge('C04.params', w, 1.0, 'par', f'params/{kind}/{case["stream"]}', f'{kind}: fitted {name} changes under rescaling (ratio to tolerance {w:.3g})', worst=w, field=name, opts=case['opts'])
    if kind == 'cbmm':
        # CBMM.predict is the only predict with a public affiliation_eps: the clipped posterior of the very same model must not see the gains either
        for eps in (1e-10, 1e-3):
            try:
                with instr.options(**dict(s.copts, affiliation_eps=eps)):
                    q1 = np.asarray(m1.predict(s.data['y'], affiliation_eps=eps)); q2 = np.asarray(m1.predict(d2['y'], affiliation_eps=eps))
            except Exception as e:
                if not instr.is_library_exception(e):
                    raise
                R.count(f'cbmm.predict(affiliation_eps) raised {type(e).__name__}')
                continue
            dq = float(np.abs(q1 - q2).max())
            judge('C04.posterior', dq, tol_post, 'post', 'predict-eps/cbmm/spatial', f'cbmm.predict(affiliation_eps={eps}) of one model changes by {dq:.3e} under per-observation rescaling', dev=dq, eps=eps, gain=case['gain'])
    for a, b in zip(ev1[1:], ev2[1:]):
        dv = float(np.abs(a['affiliation'] - b['affiliation']).max())
        judge('C04.trace', dv, tol_post * 10, 'trace', f'trace/{kind}/{case["stream"]}', f'{kind}: in-loop posterior of iteration {a["iteration"]} changes by {dv:.3e} under rescaling', dev=dv)
    if l1 is not None and np.isfinite(l1) and np.isfinite(l2):
        judge('C04.posterior', abs(l1 - l2), (1e-9 if not single else 1e-4) * max(1, abs(l1)), 'll', 'log_likelihood/cacgmm', f'CACGMM.log_likelihood changes from {l1} to {l2} under rescaling')
    spans = np.log10(np.abs(g).max() / np.abs(g).min())
    if spans >= 50 or case['gain'] == 'near_one':
        R.mark_nontrivial('mixture', kind, case['stream'], case['gain'], case['opts'], s.K, s.D, case['lead'])
    R.sample(dict(lane='mixture', kind=kind, stream=case['stream'], gain=case['gain'], decades_spanned=float(spans), posterior_dev=dev, param_ratio=w, opts=case['opts']))


def run_dist(case, R):
    from pb_bss import distribution as dist
    from pb_bss.distribution.complex_bingham import ComplexBingham, ComplexBinghamTrainer
    rng = gen.rng_of(case)
    fam, D, N, lead = case['fam'], case['D'], case['N'], tuple(case['lead'])
    real = fam == 'vmf'
    if fam == 'vmf' and case['rs'][-1] % 11 == 5:
        N, lead = int(rng.choice([65537, 70000, 131075])), ()           # as many embeddings as a whole utterance has time-frequency points
    if real:
        y = rng.standard_normal((*lead, N, D)) + 2 * oracles.unit(rng.standard_normal((*lead, 1, D)))
    else:
        cov = gen.hpd(rng, D, cond=20.0, lead=lead)
        y = np.einsum('...ab,...nb->...na', np.linalg.cholesky(cov), gen.cnormal(rng, (*lead, N, D)))
    if case.get('sparse'):
        y = sparsify(rng, y)
    if case['gain'] == 'near_one':
        y = oracles.unit(y)
        g = near_one(rng, (*lead, N), real)
    else:
        g = gen.gains(rng, (*lead, N), decades=case['decades'], kind=case['gain'], real_positive=real)
    y2 = y * g[..., None]
    sal = rng.uniform(0.1, 1, size=(*lead, N)) if case['saliency'] else None
    # trainers ---------------------------------------------------------------------------------------------
    def fit(yy):
        if fam == 'cacg':
            return dist.ComplexAngularCentralGaussianTrainer().fit(yy, iterations=5)
        if fam == 'watson':
            return dist.ComplexWatsonTrainer().fit(yy, saliency=sal)
        if fam == 'bingham':
            return ComplexBinghamTrainer(max_concentration=500).fit(yy, saliency=sal)
        return dist.VonMisesFisherTrainer().fit(yy, saliency=sal)
    out = []
    for yy in (y, y2):
        try:
            out.append(fit(yy))
        except Exception as e:
            if not instr.is_library_exception(e):
                raise
            out.append(e)
    if isinstance(out[0], Exception) or isinstance(out[1], Exception):
        if isinstance(out[0], Exception) and isinstance(out[1], Exception):
            R.count(f'{fam} trainer raised {type(out[0]).__name__} for both')
            R.undecided('C04.trainer', 'trainer raised for both')
        else:
            R.fail('C04.trainer', f'trainer-raise-asymmetry/{fam}', f'{fam} trainer raised for one of (y, c*y): {[repr(o)[:80] for o in out if isinstance(o, Exception)]}')
        return
    rt = 1e-4 if fam == 'bingham' else 1e-8
    w, name = diff.compare(diff.functionals(out[0]), diff.functionals(out[1]), rtol=rt, atol=rt)
    R.check('C04.trainer', w <= 1, f'trainer/{fam}', f'{fam} trainer: {name} changes under per-observation rescaling (ratio {w:.3g})', worst=w, field=name, saliency=case['saliency'])
    # log_pdf ------------------------------------------------------------------------------------------------
    model = out[0]
    if fam in ('cacg', 'vmf'):
        a, b = model.log_pdf(y), model.log_pdf(y2)
    else:
        ph = np.exp(2j * np.pi * rng.uniform(size=(*lead, N, 1)))
        z = oracles.unit(y)
        a, b = model.log_pdf(z), model.log_pdf(z * ph)
    dv = float(np.abs(np.asarray(a) - np.asarray(b)).max())
    R.check('C04.logpdf', dv <= 1e-9 * (1 + float(np.abs(a).max())), f'log_pdf/{fam}', f'{fam}.log_pdf changes by {dv:.3e} under rescaling of its argument', dev=dv)
    spans = np.log10(np.abs(g).max() / np.abs(g).min())
    if spans >= 50 or case['gain'] == 'near_one':
        R.mark_nontrivial('dist', fam, case['gain'], D, case['lead'], case['saliency'])
    R.sample(dict(lane='dist', fam=fam, D=D, lead=case['lead'], gain=case['gain'], decades_spanned=float(spans), trainer_ratio=w, logpdf_dev=dv))

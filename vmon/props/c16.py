"""C16 - blind alignment restores a frequency-consistent class order."""
import itertools

import numpy as np

from vmon import conds, gen, instr

from vmon.scale import S

ID = 'C16'
RULE = ('cases = (a) planted masks: K 2..4 non-negative activity patterns with pairwise cosine <= 0.1 copied to every bin with <= 10 % '
        'multiplicative jitter and permuted by a per-frequency field (arbitrary for the greedy aligner; >= 70 % majority in the first '
        'segment for DHTV with the shipped 512 / 1024 defaults and random plans with shift <= width/3): the composition of the field with '
        'the returned mapping must be constant over frequency; (b) consistent masks give the identity; (c) the DHTV alignment plan covers '
        'exactly 0..F-1 for every (stft_size, start, width, shift <= width) (exhaustive up to the tier bound); (d) on tie-free continuous '
        'masks the mapping equals the monitors own loop-level transcription of the documented procedure; non-trivial = field not constant '
        'over frequency; distinct by (lane, aligner, metric, K, F, plan)')
DECIDING = ['C16.consistent', 'C16.identity', 'C16.plan', 'C16.transcription']
MIN_DECIDED = {'quick': 200, 'thorough': 2000}
CASE_TIMEOUT = {'quick': 300, 'thorough': 1200}
EXHAUSTIVE_NOTE = 'plan coverage: every (stft_size, segment_start, segment_width, segment_shift <= width) with stft_size <= 32 (quick) / <= 64 (thorough)'
ASSUMPTIONS = ['the transcription fixes the adjacent-bin assignment of the greedy aligner to the greedy rule, as the sources own reference loop does']


def plan(tier, seed):
    rng = np.random.default_rng([seed, 116])
    pick = lambda xs: xs[int(rng.integers(len(xs)))]
    cases = []
    top = 32 if tier == 'quick' else 64
    for n in range(0, top + 1, 2):
        cases.append(dict(lane='plan', stft_size=n, rs=[seed, 16, n]))
    i = 1000
    n = S(tier, 70, 600)
    for r in range(n):
        big = tier == 'thorough' and r % 10 == 0
        cases.append(dict(lane='planted', aligner='greedy', metric=pick(['cos', 'euclidean']), K=int(rng.integers(2, 5)),
                          F=int(pick([9, 17, 33, 65, 129, 257, 513] + ([257, 513] if big else []))), T=int(rng.integers(8, 60)), rs=[seed, 17, i])); i += 1     # (the whole stated range of F in both tiers: the adjacent-bin chain is cheap)
    for r in range(n):
        which = pick(['default512', 'custom', 'custom', 'custom']) if r % 15 != 7 else 'default1024'
        F = {'default512': 257, 'default1024': 513}.get(which, int(pick([9, 17, 33, 65, 129])))
        cases.append(dict(lane='planted', aligner='dhtv', plan=which, metric=pick(['cos', 'cos', 'euclidean']), K=int(rng.integers(2, 5)), F=F, T=int(rng.integers(8, 40)),
                          rs=[seed, 18, i])); i += 1
    m = S(tier, 90, 900)
    for r in range(m):
        cases.append(dict(lane='transcription', aligner=pick(['dhtv', 'greedy']), metric=pick(['cos', 'euclidean', 'multiply']), alg=pick(['greedy', 'optimal']),
                          K=int(rng.integers(1, 6)), F=int(pick([1, 3, 5, 9, 17, 33, 61])), T=int(pick([1, 2, 5, 12, 30])), rs=[seed, 19, i])); i += 1
    return cases


def run_case(case, R):
    with instr.fp_guard():
        globals()['run_' + case['lane']](case, R)


# ---------------------------------------------------------------------------
# plan coverage
# ---------------------------------------------------------------------------

def run_plan(case, R):
    from pb_bss.permutation_alignment import DHTVPermutationAlignment as DHTV
    n = case['stft_size']
    F = n // 2 + 1
    cnt = 0
    for start in range(0, F):
        for width in range(1, F - start + 1):
            for shift in range(1, width + 1):
                try:
                    plan_ = DHTV(stft_size=n, segment_start=start, segment_width=width, segment_shift=shift, main_iterations=3, sub_iterations=2).alignment_plan
                except Exception as e:
                    if not instr.is_library_exception(e):
                        raise
                    R.fail('C16.plan', 'plan/raised', f'alignment_plan raised {type(e).__name__} for a valid configuration', stft_size=n, start=start, width=width, shift=shift)
                    continue
                cov = np.zeros(F, dtype=int)
                inside = True
                for it, a, b in plan_:
                    if a < 0 or b > F or a >= b:
                        inside = False
                    else:
                        cov[a:b] += 1
                ok = inside and bool((cov > 0).all())
                cnt += 1
                if not ok:
                    R.fail('C16.plan', 'plan/coverage', f'alignment plan does not cover exactly 0..{F-1}', stft_size=n, start=start, width=width, shift=shift, plan=plan_)
                else:
                    R.ok('C16.plan')
    R.count('plan configurations checked', cnt)
    R.mark_nontrivial('plan', n)


# ---------------------------------------------------------------------------
# planted masks
# ---------------------------------------------------------------------------

def patterns(rng, K, T):
    """non-negative activity patterns with pairwise cosine <= 0.1"""
    for _ in range(200):
        owner = rng.integers(0, K, size=T)
        owner[:K] = np.arange(K)
        owner = rng.permutation(owner)
        P = (owner[None] == np.arange(K)[:, None]) * rng.uniform(0.5, 1.0, size=(K, T)) + rng.uniform(0, 0.02, size=(K, T))
        n = P / np.linalg.norm(P, axis=1, keepdims=True)
        G = n @ n.T - np.eye(K)
        if G.max() <= 0.1:
            return P
    return None


def run_planted(case, R):
    from pb_bss import permutation_alignment as pa
    rng = gen.rng_of(case)
    K, F, T = case['K'], case['F'], case['T']
    P = patterns(rng, K, T)
    if P is None:
        R.undecided('C16.consistent', 'no pattern set found')
        return
    ref = P[:, None, :] * rng.uniform(0.9, 1.1, size=(K, F, T))
    info = dict(aligner=case['aligner'], metric=case['metric'], K=K, F=F, T=T)
    if case['aligner'] == 'greedy':
        al = pa.GreedyPermutationAlignment(similarity_metric=case['metric'])
        field = pa.sample_random_mapping(K, F, random_state=np.random.RandomState(int(rng.integers(2 ** 31))))
    else:
        if case['plan'] == 'default512':
            al = pa.DHTVPermutationAlignment.from_stft_size(512, similarity_metric=case['metric'])
        elif case['plan'] == 'default1024':
            al = pa.DHTVPermutationAlignment.from_stft_size(1024, similarity_metric=case['metric'])
        else:
            for _ in range(1000):
                width = int(rng.integers(max(3, F // 6), max(4, (3 * F) // 4) + 1))
                start = int(rng.integers(0, F - width + 1))
                shift = int(rng.integers(1, max(1, width // 3) + 1))
                # the stated domain: every later segment overlaps the already aligned band by >= 2/3 (the plan
                # stretches its outermost segments to the band edges, so shift <= width/3 alone does not imply it)
                lo, hi = None, None
                okplan = True
                for it, a, b in own_plan(F, start, width, shift, 20, 2):
                    if lo is None:
                        lo, hi = a, b
                        continue
                    ov = max(0, min(b, hi) - max(a, lo))
                    if ov * 3 < 2 * (b - a):
                        okplan = False
                    lo, hi = min(lo, a), max(hi, b)
                if okplan:
                    break
            if not okplan:
                R.undecided('C16.consistent', 'no plan inside the stated domain found for this F')
                return
            al = pa.DHTVPermutationAlignment(stft_size=2 * (F - 1), segment_start=start, segment_width=width, segment_shift=shift,
                                             main_iterations=20, sub_iterations=2, similarity_metric=case['metric'])
            info.update(start=start, width=width, shift=shift)
        s0, w0 = al.segment_start, al.segment_width
        field = pa.sample_random_mapping(K, F, random_state=np.random.RandomState(int(rng.integers(2 ** 31))))
        base = rng.permutation(K)
        seg = np.arange(s0, s0 + w0)
        major = rng.permutation(seg)[:int(np.ceil(0.7 * w0))]
        fk = case['rs'][-1] % 3
        if fk == 1 and K >= 2:
            # the coherent adversary: every bin outside the majority shares one OTHER order (they out-vote the aligned band wherever a
            # segment overlaps it by too little)
            other = base[(np.arange(K) + 1 + int(rng.integers(K - 1))) % K]
            field[:] = other[:, None]
        elif fk == 2 and K >= 2:
            # two coherent bands with different orders below and above a random bin
            cut = int(rng.integers(1, F - 1))
            field[:, :cut] = rng.permutation(K)[:, None]
            field[:, cut:] = rng.permutation(K)[:, None]
        info['field'] = ['random', 'coherent-other', 'two-bands'][fk]
        field[:, major] = base[:, None]
    mask = pa.apply_mapping(ref, field)
    try:
        mapping = al.calculate_mapping(mask)
        out = al(mask)
    except Exception as e:
        if not instr.is_library_exception(e):
            raise
        R.fail('C16.consistent', f'planted/raised/{case["aligner"]}', f'{type(e).__name__}: {str(e)[:100]}', **info)
        return
    if not conds.is_perm_columns(mapping):
        R.fail('C16.consistent', f'planted/not-a-permutation/{case["aligner"]}', 'mapping is not a permutation', **info)
        return
    order = np.take_along_axis(field, mapping, axis=0)          # order[k, f] = field[mapping[k, f], f]
    const = bool((order == order[:, :1]).all())
    R.check('C16.consistent', const, f'planted/inconsistent/{case["aligner"]}/{case["metric"]}', f'{case["aligner"]} aligner leaves {int((order != order[:, :1]).any(axis=0).sum())} of {F} bins in a different class order', **info)
    R.check('C16.consistent', np.array_equal(out, pa.apply_mapping(mask, mapping)), f'planted/call-vs-mapping/{case["aligner"]}', '__call__ result is not apply_mapping(mask, calculate_mapping(mask))', **info)
    # already consistent mask -> identity
    cons = ref[rng.permutation(K)]
    try:
        m2 = al.calculate_mapping(cons)
        o2 = al(cons)
        R.check('C16.identity', bool((m2 == np.arange(K)[:, None]).all()) and np.array_equal(o2, cons), f'identity/{case["aligner"]}/{case["metric"]}', 'an already consistent mask is not returned unchanged (identity mapping)', **info)
    except Exception as e:
        if not instr.is_library_exception(e):
            raise
        R.fail('C16.identity', f'identity/raised/{case["aligner"]}', f'{type(e).__name__}: {str(e)[:100]}', **info)
    if not (field == field[:, :1]).all():
        R.mark_nontrivial('planted', case['aligner'], case.get('plan'), case['metric'], K, F)
    R.sample(dict(lane='planted', **info, bins_permuted=int((field != np.arange(K)[:, None]).any(axis=0).sum())))


# ---------------------------------------------------------------------------
# transcription
# ---------------------------------------------------------------------------

class NearTie(Exception):
    pass


def vnorm(a):
    n = np.linalg.norm(a, axis=-1, keepdims=True)
    return a / np.maximum(n, np.finfo(n.dtype).tiny)


def score(metric, mask_f, ref_f):
    """score[k_ref, K_mask]"""
    if metric in ('cos', 'multiply'):
        return np.einsum('kt,Kt->kK', ref_f, mask_f)
    d = mask_f[None, :, :] - ref_f[:, None, :]
    return -np.sqrt((np.abs(d) ** 2).sum(-1))


def assign(sc, alg):
    K = sc.shape[0]
    scale = max(float(np.abs(sc).max()), 1e-300) * (1e5 if sc.dtype == np.float32 else 1.0)      # near-tie threshold in units of the dtype's rounding
    if alg == 'greedy':
        s = sc.astype(float).copy()
        out = np.zeros(K, dtype=int)
        for _ in range(K):
            flat = np.sort(s[np.isfinite(s)].ravel())
            if len(flat) >= 2 and flat[-1] - flat[-2] < 1e-9 * scale:
                raise NearTie()
            i, j = np.unravel_index(np.argmax(s), s.shape)
            out[i] = j
            s[i, :] = -np.inf
            s[:, j] = -np.inf
        return out
    tots = sorted(((sum(sc[range(K), list(p)]), p) for p in itertools.permutations(range(K))), reverse=True)
    if len(tots) >= 2 and tots[0][0] - tots[1][0] < 1e-9 * scale * K:
        raise NearTie()
    return np.array(tots[0][1])


def own_plan(F, start, width, shift, main_it, sub_it):
    up = [[sub_it, s, s + width] for s in range(start + shift, F - width, shift)]
    down = [[sub_it, s, s + width] for s in range(start - shift, 0, -shift)]
    first = [main_it, start, start + width]
    if up:
        up[-1][2] = F
    else:
        first[2] = F
    if down:
        down[-1][1] = 0
    else:
        first[1] = 0
    rest = []
    for a, b in itertools.zip_longest(up, down):
        if a is not None:
            rest.append(a)
        if b is not None:
            rest.append(b)
    return [first] + rest


def transcribe_dhtv(mask, metric, alg, start, width, shift, main_it, sub_it):
    K, F, T = mask.shape
    feat = vnorm(mask) if metric == 'cos' else mask.copy()
    mapping = np.repeat(np.arange(K)[:, None], F, axis=1)
    for iters, a, b in own_plan(F, start, width, shift, main_it, sub_it):
        for _ in range(iters):
            cen = feat[:, a:b, :].mean(axis=1)
            if metric == 'cos':
                cen = vnorm(cen)
            changed = False
            for f in range(a, b):
                rp = assign(score(metric, feat[:, f, :], cen), alg)
                if not (rp == np.arange(K)).all():
                    changed = True
                    feat[:, f, :] = feat[rp, f, :]
                    mapping[:, f] = mapping[rp, f]
            if not changed:
                break
    return mapping


def transcribe_greedy(mask, metric):
    K, F, T = mask.shape
    m = vnorm(mask) if metric == 'cos' else mask
    mapping = np.zeros((K, F), dtype=int)
    mapping[:, 0] = np.arange(K)
    for f in range(1, F):
        local = assign(score(metric, m[:, f, :], m[:, f - 1, :]), 'greedy')
        mapping[:, f] = local[mapping[:, f - 1]]
    return mapping


def run_transcription(case, R):
    from pb_bss import permutation_alignment as pa
    rng = gen.rng_of(case)
    K, F, T = case['K'], case['F'], case['T']
    mask = rng.uniform(0.05, 1.0, size=(K, F, T))
    single = case['rs'][-1] % 5 == 0
    if case['rs'][-1] % 4 == 0:
        # the same tie-free mask at a tiny scale (exact power of two; products of two entries stay normal numbers of the dtype)
        mask = mask * 2.0 ** -int(rng.integers(40, 80) if not single else rng.integers(10, 20))
    elif case['rs'][-1] % 7 == 1:
        mask = rng.standard_normal((K, F, T))                       # "all real masks": entries of both signs (centred features)
    elif case['rs'][-1] % 7 == 2:
        mask = mask * (1e9 if not single else 1e4)                   # large magnitudes (un-normalised power-like features)
    elif case['rs'][-1] % 7 == 3:
        # activity patterns that already have unit norm over time (features normalised by an earlier stage): "nothing to normalise"
        # shortcuts hand the caller's own array on to code that reorders its working copy
        mask = mask / np.linalg.norm(mask, axis=-1, keepdims=True)
    if single:
        mask = mask.astype(np.float32)
    before = mask.copy()
    info = dict(aligner=case['aligner'], metric=case['metric'], alg=case['alg'], K=K, F=F, T=T, scale=float(np.abs(mask).max()), dtype=str(mask.dtype))
    try:
        if case['aligner'] == 'dhtv':
            width = int(rng.integers(1, F + 1)); start = int(rng.integers(0, F - width + 1)); shift = int(rng.integers(1, width + 1))
            mi, si = int(rng.integers(1, 6)), int(rng.integers(1, 4))
            info.update(start=start, width=width, shift=shift, main_iterations=mi, sub_iterations=si)
            al = pa.DHTVPermutationAlignment(stft_size=2 * (F - 1), segment_start=start, segment_width=width, segment_shift=shift,
                                             main_iterations=mi, sub_iterations=si, similarity_metric=case['metric'], algorithm=case['alg'])
            if case['rs'][-1] % 3 == 0 and F >= 5:
                # one aligner object, used with another configuration before (attributes are public): the plan must follow them
                al.stft_size, al.segment_start, al.segment_width, al.segment_shift = 2 * (F - 1), 0, F, 1
                _ = al.alignment_plan
                _ = al.calculate_mapping(mask)
                al.segment_start, al.segment_width, al.segment_shift = start, width, shift
                R.check('C16.plan', [list(p) for p in al.alignment_plan] == own_plan(F, start, width, shift, mi, si), 'plan/stale-after-reconfiguration',
                        'alignment_plan does not follow the aligner attributes after they were changed', **info)
            got = al.calculate_mapping(mask)
            ref = transcribe_dhtv(mask, case['metric'], case['alg'], start, width, shift, mi, si)
        else:
            al = pa.GreedyPermutationAlignment(similarity_metric=case['metric'], algorithm=case['alg'])
            got = al.calculate_mapping(mask)
            ref = transcribe_greedy(mask, case['metric'])
    except NearTie:
        R.undecided('C16.transcription', 'score near-tie')
        return
    except Exception as e:
        if not instr.is_library_exception(e):
            raise
        R.fail('C16.transcription', f'transcription/raised/{case["aligner"]}', f'{type(e).__name__}: {str(e)[:100]}', **info)
        return
    R.check('C16.transcription', got.shape == ref.shape and np.array_equal(got, ref), f'transcription/{case["aligner"]}/{case["metric"]}/{case["alg"] if case["aligner"] == "dhtv" else "-"}',
            f'{case["aligner"]} mapping differs from the loop-level transcription of its procedure in {int((np.asarray(got) != ref).any(axis=0).sum()) if got.shape == ref.shape else "?"} bins', **info)
    R.check('C16.transcription', np.array_equal(mask, before), f'transcription/input-modified/{case["aligner"]}', 'the aligner modified the mask it was given', **info)
    out = al(mask)
    R.check('C16.transcription', np.array_equal(out, pa.apply_mapping(before, ref)), f'transcription/aligned-mask/{case["aligner"]}', 'applying the mapping does not reproduce the aligned mask of the procedure', **info)
    if K >= 2 and F >= 3:
        R.mark_nontrivial('transcription', case['aligner'], case['metric'], case['alg'], K, F)
    R.sample(dict(lane='transcription', **info))


def post_verdict(M, tier):
    top = 32 if tier == 'quick' else 64
    need = 0
    for n in range(0, top + 1, 2):
        F = n // 2 + 1
        for start in range(F):
            for width in range(1, F - start + 1):
                need += width
    got = M['counters'].get('plan configurations checked', 0)
    return [] if got == need else [f'plan coverage lane incomplete ({got} of {need})']

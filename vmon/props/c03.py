"""C03 - the true partition of separable data is a stable EM fixed point."""
import numpy as np

from vmon import gen, instr, models, oracles, scen

from vmon.scale import S

ID = 'C03'
RULE = ('cases = planted scenes: K prototypes with pairwise |cos| <= 0.3 (rejection sampled), class sizes >= D+2, additive '
        'perturbation <= 1e-2, arbitrary per-frame complex gains, start = truth blurred with Dirichlet noise (true class stays '
        'largest); all seven mixture trainers, all tying options; the arg-max of every in-loop and returned posterior and the '
        'fitted prototypes are compared with the planted truth; non-trivial = blur >= 0.1 and K >= 2; distinct by (kind, K, D, '
        'options, blur bucket)')
DECIDING = ['C03.argmax', 'C03.params']
MIN_DECIDED = {'quick': 100, 'thorough': 1000}
NEEDS_HOOK = True
CASE_TIMEOUT = {'quick': 240, 'thorough': 900}
ASSUMPTIONS = ['planted labels and prototypes are the ground truth by construction']


def prototypes(rng, K, D, real, axis_aligned=False):
    if axis_aligned:
        # K of the coordinate axes (exactly orthonormal, exact zeros in every prototype), with arbitrary phases / signs
        P = np.eye(D)[rng.permutation(D)[:K]].astype(float if real else complex)
        return P * (rng.choice([-1.0, 1.0], size=(K, 1)) if real else np.exp(2j * np.pi * rng.uniform(size=(K, 1))))
    for _ in range(10000):
        P = rng.standard_normal((K, D)) if real else gen.cnormal(rng, (K, D))
        P = oracles.unit(P)
        G = np.abs(P @ P.conj().T) - np.eye(K)
        if G.max() <= 0.3:
            return P
    Q = gen.random_orthogonal(rng, D) if real else gen.random_unitary(rng, D)
    return Q[:K]


def labels(rng, K, N, D, unbalanced=False):
    if unbalanced:
        # one class as small as the domain allows (D + 2 observations, a few per cent of the data), the others share the rest
        rest = rng.integers(1, K, size=N - K * (D + 2))
        lab = np.concatenate([np.full(D + 2, k) for k in range(K)] + [rest])
        return rng.permutation((lab + int(rng.integers(K))) % K)
    lab = np.concatenate([np.full(D + 2, k) for k in range(K)] + [rng.integers(0, K, size=N - K * (D + 2))])
    return rng.permutation(lab)


def plan(tier, seed):
    rng = np.random.default_rng([seed, 103])
    n = S(tier, 24, 280)
    cases = []
    i = 0
    pick = lambda xs: xs[int(rng.integers(len(xs)))]
    for kind in models.KINDS:
        for r in range(n if kind != 'cbmm' else max(4, n // 6)):
            K = int(rng.integers(2, 5))
            D = int(rng.integers(K, 9))
            if kind == 'cbmm':
                K = int(rng.integers(2, 4)); D = int(rng.integers(K, 6))
            E = int(rng.integers(max(2, K), 9))
            if kind in models.INTEGRATION:
                lead = [pick([1, 2, 3])]
            else:
                lead = pick([[], [1], [3], [2, 2]]) if kind != 'cbmm' else pick([[], [2]])
            N = K * (D + 2) + int(rng.integers(0, 6 * K))
            if kind in models.INTEGRATION:
                N = max(N, K * (max(D, E) + 2))
            o = scen.sample_opts(rng, kind, lead)
            o.pop('mask', None); o.pop('aligner', None)
            o['saliency'] = pick(['none', 'none', 'pos'])
            if 'inline_permutation_alignment' in o:
                o['inline_permutation_alignment'] = False
            if kind in models.INTEGRATION:
                o['spatial_weight'], o['spectral_weight'] = pick([[1.0, 1.0], [0.5, 2.0], [1.0, 1.0]])
            if 'fixed_covariance' in o:
                o.pop('fixed_covariance')
            if kind in ('vmfmm', 'vmfcacgmm'):
                o['min_concentration'] = 1e-10
            if 'affiliation_eps' in o:
                o['affiliation_eps'] = pick([0.0, 1e-10])     # clipping at 1e-3 biases the prototypes by design
            # Sampled sub-domain: with blur 0.45 (true class barely the largest) EM itself - not the code - was seen
            # to leave the planted partition on the unchanged tree (GMM with full covariances from D+2 points per
            # class, cACGMM / vMF-cACGMM with frame-wise priors and 16..36 observations), so the heaviest blur
            # sampled is 0.3 (true class >= 0.7). See DESIGN.md section 7, C03.
            blur = float(pick([0.0, 0.1, 0.2, 0.3]))
            if kind in ('gmm', 'gcacgmm') and o.get('covariance_type', 'full' if kind == 'gmm' else 'spherical') == 'full':     # not passed = library default
                # full covariances fitted to dim+2 points per class are nearly singular (likelihood unbounded in the
                # degenerate directions): EM itself was seen to flip single observations there; sample larger classes
                # (observed on the unchanged tree and confirmed with scipy.stats: with 30 points per class in D = 8 and blur 0.1
                # the estimation noise of the within-class covariances alone outweighs the between-class term for single
                # low-saliency points) -> full covariances are started from the exact partition
                blur = 0.0
                N = max(N, 2 * K * ((max(D, E) if kind in models.INTEGRATION else D) + 2))
            elif kind in ('cacgmm', 'cbmm', 'gcacgmm', 'vmfcacgmm'):
                # models with a full D x D parameter matrix per class: with blur >= 0.2 single low-saliency observations were
                # seen to flip in the first E-step after the blurred M-step on the unchanged tree (estimation noise, not code)
                blur = min(blur, 0.1)
            elif blur >= 0.2:
                N = max(N, 2 * K * ((max(D, E) if kind in models.INTEGRATION else D) + 2))
            iters = 20 if (tier == 'thorough' or r % 3 == 0) else int(pick([3, 5, 10]))
            if kind == 'cbmm':
                iters = int(pick([2, 3, 5]))
            cases.append(dict(kind=kind, K=K, D=D, E=E, N=N, lead=lead, blur=blur, init_dtype=pick(['float', 'float', 'bool', 'int']), pert=float(10 ** rng.uniform(-9 if kind != 'cbmm' else -4, -2)) if (kind not in ('cacgmm', 'cwmm', 'vmfmm') or rng.uniform() > 0.12) else 0.0, axis_aligned=bool(rng.uniform() < 0.15),   # cBMM: a (nearly) rank-one class scatter makes its trainer raise by design (assert / least_squares)
                             
                              iters=iters, opts=o, rs=[seed, 3, i]))
            i += 1
    # the corner of the domain: as many channels as classes (D == K), prototypes exactly on coordinate axes (the orthonormal limit),
    # noise-free or nearly noise-free classes - closed forms for small D and exact zeros in the class statistics live here
    for kind in ('cwmm', 'cacgmm', 'vmfmm'):
        for r in range(S(tier, 4, 30)):
            K = int(pick([2, 2, 3]))
            o = scen.sample_opts(rng, kind, [])
            o.pop('mask', None); o.pop('aligner', None)
            o['saliency'] = 'none'
            if kind == 'vmfmm':
                o['min_concentration'] = 1e-10
            if 'affiliation_eps' in o:
                o['affiliation_eps'] = pick([0.0, 1e-10])
            lead = pick([[], [2]])
            cases.append(dict(kind=kind, K=K, D=K, E=K, N=K * (K + 2) + int(rng.integers(0, 8)), lead=lead, blur=0.0 if r % 2 else 0.1, init_dtype='float',
                              pert=float(pick([0.0, 0.0, 1e-9, 1e-6])), axis_aligned=True, iters=int(pick([1, 3, 10])), opts=o, rs=[seed, 3, i]))
            i += 1
    # strongly unbalanced classes: the smallest class holds D + 2 of 150..250 observations (anything normalised by the number of
    # observations instead of the class mass, or shared between the classes, starves it)
    for kind in models.KINDS:
        for r in range(S(tier, 3, 16) if kind != 'cbmm' else S(tier, 2, 6)):
            K = 3; D = int(rng.integers(3, 6)) if kind != 'cbmm' else int(pick([3, 4])); E = int(rng.integers(3, 6))
            lead = [1] if kind in models.INTEGRATION else []
            o = scen.sample_opts(rng, kind, lead)
            o.pop('mask', None); o.pop('aligner', None); o.pop('fixed_covariance', None)
            o['saliency'] = 'none'
            if 'inline_permutation_alignment' in o:
                o['inline_permutation_alignment'] = False
            if kind in models.INTEGRATION:
                o['spatial_weight'], o['spectral_weight'] = 1.0, 1.0
            if kind in ('vmfmm', 'vmfcacgmm'):
                o['min_concentration'] = 1e-10
            if 'affiliation_eps' in o:
                o['affiliation_eps'] = pick([0.0, 1e-10])
            cases.append(dict(kind=kind, K=K, D=D, E=E, N=K * (max(D, E) + 2) + int(rng.integers(150, 250)), lead=lead, blur=0.0, init_dtype='float', unbalanced=True,
                              pert=float(10 ** rng.uniform(-6 if kind != 'cbmm' else -4, -2.5)), axis_aligned=False, iters=int(pick([3, 5, 10])) if kind != 'cbmm' else int(pick([3, 5])), opts=o, rs=[seed, 33, i]))
            i += 1
    return cases


def build(case):
    """Scenario with planted data. Returns (scenario, truth labels (..., N), prototype dict)."""
    rng = gen.rng_of(case)
    kind, K, D, N, E = case['kind'], case['K'], case['D'], case['N'], case['E']
    lead = tuple(case['lead'])
    pert = case['pert']
    base = dict(case)
    base['cls'] = 'gauss'
    base['init'] = 'dirichlet:1'
    s = scen.build(base)        # options / saliency from the shared builder; data replaced below
    lab = np.empty((*lead, N), dtype=int)
    truth = {}
    if kind in models.COMPLEX or kind in models.INTEGRATION:
        P = np.empty((*lead, K, D), dtype=complex)
        y = np.empty((*lead, N, D), dtype=complex)
        for idx in np.ndindex(*lead):
            P[idx] = prototypes(rng, K, D, real=False, axis_aligned=case.get('axis_aligned', False))
            lab[idx] = labels(rng, K, N, max(D, E) if kind in models.INTEGRATION else D, case.get('unbalanced', False))
            noise = gen.cnormal(rng, (N, D)) * pert
            g = gen.gains(rng, (N, 1), decades=20)
            y[idx] = g * (P[idx][lab[idx]] + noise)
        truth['spatial'] = P
        data = dict(y=y)
        if kind in models.INTEGRATION:
            Pe = prototypes(rng, K, E, real=True)
            scale = 1.0 if kind == 'vmfcacgmm' else float(rng.uniform(1, 5))
            A = gen.hpd(rng, E, cond=9.0, real=True)
            e = np.empty((*lead, N, E))
            for idx in np.ndindex(*lead):
                noise = rng.standard_normal((N, E)) @ np.linalg.cholesky(A).T / 3 * pert
                e[idx] = scale * (Pe[lab[idx]] + noise)
                if kind == 'vmfcacgmm':
                    e[idx] *= 10 ** rng.uniform(-3, 3, size=(N, 1))
            data['e'] = e
            truth['spectral'] = Pe * scale
            truth['scale'] = scale
    else:
        P = np.empty((*lead, K, D))
        y = np.empty((*lead, N, D))
        scale = 1.0 if kind == 'vmfmm' else float(rng.uniform(1, 5))
        A = gen.hpd(rng, D, cond=9.0, real=True)
        for idx in np.ndindex(*lead):
            P[idx] = prototypes(rng, K, D, real=True, axis_aligned=case.get('axis_aligned', False))
            lab[idx] = labels(rng, K, N, D, case.get('unbalanced', False))
            noise = rng.standard_normal((N, D)) @ np.linalg.cholesky(A).T / 3 * pert
            y[idx] = scale * (P[idx][lab[idx]] + noise)
            if kind == 'vmfmm':
                y[idx] *= 10 ** rng.uniform(-3, 3, size=(N, 1))
        truth['spatial'] = P * scale
        truth['scale'] = scale
        data = dict(y=y)
    s.data = data
    onehot = (lab[..., None, :] == np.arange(K)[:, None]).astype(float)
    b = case['blur']
    noise = gen.dirichlet_init(rng, lead, K, N, alpha=1.0)
    s.init = (1 - b) * onehot + b * noise
    if b == 0 and case.get('init_dtype', 'float') != 'float':
        # the exact partition as label code hands it over (labels_to_one_hot returns a boolean array by default)
        s.init = onehot.astype(bool if case['init_dtype'] == 'bool' else np.int64)
    s.num_classes = None
    s.np_seed = None
    return s, lab, truth


def run_case(case, R):
    s, lab, truth = build(case)
    kind = s.kind
    n = s.iterations
    try:
        with instr.options(**s.copts), instr.capture() as ev, instr.fp_guard():
            model = scen.fit(s)
            post = models.predict(kind, model, s.data)
    except KeyError as e:
        R.count(f'unsupported (KeyError {e})')
        R.undecided('C03.argmax', 'unsupported dimension')
        return
    except Exception as e:
        if not instr.is_library_exception(e):
            raise
        R.fail('C03.argmax', f'raised/{kind}', f'{kind} raised {type(e).__name__} on separable data: {str(e)[:150]}', opts=case['opts'])
        return
    # arg-max of every in-loop posterior and the returned one
    for e in ev[1:]:
        a = e['affiliation']
        am = a.argmax(axis=-2)
        wrong = int((am != lab).sum())
        R.check('C03.argmax', wrong == 0, f'argmax/{kind}/in-loop', f'{kind}: {wrong} observations not in their true class entering M-step {e["iteration"]}',
                iteration=e['iteration'], wrong=wrong, opts=case['opts'], blur=case['blur'])
    wrong = int((post.argmax(axis=-2) != lab).sum())
    R.check('C03.argmax', wrong == 0, f'argmax/{kind}/returned', f'{kind}: {wrong} of {lab.size} observations not in their true class after {n} iterations',
            wrong=wrong, opts=case['opts'], blur=case['blur'], iters=n)
    # fit_predict at the documented iteration counts
    for it in [i for i in (1, 2, 3, 5, 10, 20) if i <= n][-2:]:
        try:
            with instr.options(**s.copts):
                fp = scen.fit_predict(s, iterations=it)
        except Exception as e:
            if not instr.is_library_exception(e):
                raise
            R.fail('C03.argmax', f'raised/{kind}', f'{kind}.fit_predict raised {type(e).__name__}')
            continue
        wrong = int((fp.argmax(axis=-2) != lab).sum())
        R.check('C03.argmax', wrong == 0, f'argmax/{kind}/fit_predict', f'{kind}.fit_predict({it} iterations): {wrong} observations misassigned', wrong=wrong, iters=it)
    # the very first M-steps: the start is at most lightly blurred (<= 0.1 for the models with a class covariance), so the class
    # scatter is dominated by the class's own observations whatever their levels and the principal eigenvector is within ~0.25 rad of
    # the planted line already (a loose bound: the sharp one below needs hard posteriors)
    if kind in ('cacgmm', 'gcacgmm', 'vmfcacgmm') and case['blur'] <= 0.1:
        for e in ev[:2]:
            m_ = e.get('model')
            if m_ is None or not hasattr(m_, 'cacg'):
                continue
            U = np.asarray(m_.cacg.covariance_eigenvectors); lam = np.asarray(m_.cacg.covariance_eigenvalues)
            if not (np.isfinite(U).all() and np.isfinite(lam).all()):
                continue
            top = np.take_along_axis(U, lam.argmax(-1)[..., None, None], axis=-1)[..., 0]
            c = np.abs(np.einsum('...d,...d->...', top.conj(), truth['spatial']))
            R.check('C03.params', float(c.min()) >= 0.9, f'prototype/{kind}/cacg-first-steps', f'cACG principal eigenvector after M-step {e["iteration"]} far off the planted line: |cos| = {c.min():.4f}', cos=float(c.min()), blur=case['blur'])
    # parameters point at the prototypes --------------------------------------------------------------------
    # The model after iteration 1 is the M-step of the *blurred* start and legitimately points at blurred
    # prototypes; the clause is judged once the in-loop posteriors have become (nearly) hard.
    if n < 5:
        R.sample(dict(kind=kind, K=s.K, D=s.D, N=s.N, lead=case['lead'], blur=case['blur'], pert=case['pert'], iters=n, opts=case['opts']))
        if case['blur'] >= 0.1:
            R.mark_nontrivial(kind, s.K, s.D, case['opts'], case['blur'])
        return
    a = ev[-1]['affiliation']
    onehot = (lab[..., None, :] == np.arange(s.K)[:, None])
    leak = float((np.where(onehot, 0.0, a).sum(-1) / a.sum(-1)).max())
    if leak > 1e-3:
        R.undecided('C03.params', 'in-loop posterior not yet hard')
        return
    cos_min = np.cos(0.1)
    P = truth['spatial']
    if kind in ('cacgmm', 'gcacgmm', 'vmfcacgmm'):
        U = np.asarray(model.cacg.covariance_eigenvectors)
        lam = np.asarray(model.cacg.covariance_eigenvalues)
        top = np.take_along_axis(U, lam.argmax(-1)[..., None, None], axis=-1)[..., 0]
        c = np.abs(np.einsum('...d,...d->...', top.conj(), P))
        R.check('C03.params', float(c.min()) >= cos_min, f'prototype/{kind}/cacg', f'cACG principal eigenvector off the planted line: |cos| = {c.min():.4f}', cos=float(c.min()))
    if kind == 'cwmm':
        c = np.abs(np.einsum('...d,...d->...', np.asarray(model.complex_watson.mode).conj(), P))
        R.check('C03.params', float(c.min()) >= cos_min, f'prototype/{kind}', f'Watson mode off the planted line: |cos| = {c.min():.4f}', cos=float(c.min()))
    if kind == 'cbmm':
        U = np.asarray(model.complex_bingham.covariance_eigenvectors)
        lam = np.asarray(model.complex_bingham.covariance_eigenvalues)
        top = np.take_along_axis(U, lam.argmax(-1)[..., None, None], axis=-1)[..., 0]
        c = np.abs(np.einsum('...d,...d->...', top.conj(), P))
        R.check('C03.params', float(c.min()) >= cos_min, f'prototype/{kind}', f'Bingham top eigenvector off the planted line: |cos| = {c.min():.4f}', cos=float(c.min()))
    if kind == 'vmfmm':
        c = np.einsum('...d,...d->...', np.asarray(model.vmf.mean), oracles.unit(P))
        R.check('C03.params', float(c.min()) >= cos_min, f'prototype/{kind}', f'vMF mean off the planted direction: cos = {c.min():.4f}', cos=float(c.min()))
    if kind == 'vmfcacgmm':
        c = np.einsum('...d,...d->...', np.asarray(model.vmf.mean), oracles.unit(truth['spectral']))
        R.check('C03.params', float(c.min()) >= cos_min, f'prototype/{kind}/vmf', f'vMF mean off the planted direction: cos = {c.min():.4f}', cos=float(c.min()))
    if kind == 'gmm':
        d = np.linalg.norm(np.asarray(model.gaussian.mean) - P, axis=-1)
        R.check('C03.params', float(d.max()) <= (5 * case['pert'] + 4 * leak) * truth['scale'], f'prototype/{kind}', f'Gaussian mean {d.max():.3e} away from the planted mean', dist=float(d.max()))
    if kind == 'gcacgmm':
        d = np.linalg.norm(np.asarray(model.gaussian.mean) - truth['spectral'], axis=-1)
        R.check('C03.params', float(d.max()) <= (5 * case['pert'] + 4 * leak) * truth['scale'], f'prototype/{kind}/gaussian', f'Gaussian mean {d.max():.3e} away from the planted mean', dist=float(d.max()))
    if case['blur'] >= 0.1:
        R.mark_nontrivial(kind, s.K, s.D, case['opts'], case['blur'])
    R.sample(dict(kind=kind, K=s.K, D=s.D, N=s.N, lead=case['lead'], blur=case['blur'], pert=case['pert'], iters=n, opts=case['opts']))

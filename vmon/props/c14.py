"""C14 - permutation alignment only reorders classes."""
import itertools

import numpy as np

from vmon import conds, gen, instr, oracles

from vmon.scale import S

ID = 'C14'
RULE = ('cases = (a) all score matrices over {0,1,2} for K <= 3 with both assignment algorithms (exhaustive), random float and integer '
        'score matrices incl. entries at the integer dtype minimum; (b) DHTV / greedy / oracle aligners on real masks (K 1..6, odd F, '
        'T >= 1; continuous, binary, integer dtypes, constant, zero, tied rows; metrics cos / euclidean / multiply; random valid DHTV '
        'segment plans): mapping columns are permutations, the aligned mask is exactly the mapped rows; (c) inline alignment inside EM '
        '(posteriors and quadratic forms permuted together); (d) the integration models built-in spatial/spectral alignment: output is '
        'the Bayes posterior for some per-frequency permutation whose criterion is maximal and >= identity; non-trivial = K >= 2 and '
        'F >= 3 (aligners) / K >= 2 (matrices); distinct by (lane, aligner, metric, mask class, K, F)')
REACH_REQUIRED = {'greedy assignment loop': ('permutation_alignment.py', r'reverse_permutation\[\(i, \*f\)\] = j'),
                  'optimal assignment loop': ('permutation_alignment.py', r'for permutation in itertools\.permutations\(range\(K\)\):'),
                  'built-in spatial/spectral alignment': ('distribution/mixture_model_utils.py', r'for permutation in permutations:'),
                  'DHTV: bin reassigned': ('permutation_alignment.py', r'mapping\[:, f\] = mapping\[reverse_permutation, f\]')}
DECIDING = ['C14.perm', 'C14.apply', 'C14.mapping', 'C14.aligned', 'C14.inline', 'C14.builtin']
MIN_DECIDED = {'quick': 400, 'thorough': 4000}
CASE_TIMEOUT = {'quick': 120, 'thorough': 1200}
EXHAUSTIVE_NOTE = 'all 3^(K*K) score matrices over {0,1,2} for K = 1, 2, 3 with algorithms greedy and optimal (2 * (3 + 81 + 19683) calls) are driven completely in both tiers'
ASSUMPTIONS = ['rows of a mask may coincide (constant / tied masks): only bitwise row identity with the mapped input row is demanded']
MASKS = ['continuous', 'binary', 'int8', 'int32', 'uint8', 'constant', 'zero', 'tied', 'int8-ones', 'bool', 'unitrows', 'huge']


def plan(tier, seed):
    rng = np.random.default_rng([seed, 114])
    pick = lambda xs: xs[int(rng.integers(len(xs)))]
    cases = [dict(lane='exhaustive', K=K, alg=alg, rs=[seed, 14, K]) for K in (1, 2, 3) for alg in ('greedy', 'optimal')]
    i = 100
    n = S(tier, 300, 3000)
    for r in range(n):
        cases.append(dict(lane='matrix', K=int(rng.integers(1, 7)), lead=pick([[], [3], [2, 2]]), alg=pick(['greedy', 'optimal']),
                          dtype=pick(['float', 'float', 'int8', 'int16', 'int64', 'int8-min', 'int32-min', 'float-ties', 'bool', 'uint8']), rs=[seed, 15, i]))
        i += 1
    m = S(tier, 240, 2400)
    for r in range(m):
        K = int(rng.integers(1, 7))
        F = int(pick([1, 3, 5, 9, 17, 33, 65]))
        cases.append(dict(lane='aligner', aligner=pick(['dhtv', 'greedy', 'oracle']), metric=pick(['cos', 'euclidean', 'multiply']), alg=pick(['greedy', 'optimal']),
                          mask=pick(MASKS), K=K, F=int(pick([1, 3, 5, 9, 17, 33, 65, 129])) if r % 5 == 0 else F, T=int(pick([1, 2, 5, 20, 128])), rs=[seed, 16, i]))
        i += 1
    p = S(tier, 60, 600)
    for r in range(p):
        cases.append(dict(lane='inline', kind=pick(['cacgmm', 'cwmm', 'cbmm', 'cwmm', 'cacgmm']), K=int(rng.integers(2, 4)), F=int(pick([3, 5, 9])), T=int(rng.integers(8, 25)),
                          D=int(rng.integers(2, 5)), aligner=pick(['greedy-cos', 'greedy-euclidean', 'dhtv']), rs=[seed, 17, i]))
        i += 1
    for r in range(S(tier, 16, 160)):
        cases.append(dict(lane='builtinmodel', kind=pick(['gcacgmm', 'vmfcacgmm']), K=int(pick([2, 3, 3])), F=int(pick([1, 2, 3])), T=int(rng.integers(8, 20)), D=int(rng.integers(2, 5)),
                          sw=pick([[1.0, 1.0], [0.5, 2.0], [2.0, 0.5], [1.0, 3.0]]), wca=pick([[-1], [-3], [-3, -1]]), rs=[seed, 19, i]))
        i += 1
    q = S(tier, 120, 1200)
    for r in range(q):
        Kb = int(rng.integers(1, 5)) if r % 6 else int(pick([5, 5, 6]))          # K = 5, 6: 120 / 720 candidate pairings per bin
        cases.append(dict(lane='builtin', K=Kb, F=int(rng.integers(1, 6)) if Kb <= 4 else int(pick([1, 2])), T=int(rng.integers(1, 30)), spread=float(pick([0.5, 3, 30])),
                          eps=float(pick([0, 0, 1e-10, 1e-3])), wkind=pick(['fk', 'k', 'kt', 'scalar']), rs=[seed, 18, i]))
        i += 1
    if tier == 'thorough':
        cases.append(dict(lane='suite', rs=[seed, 99, 0]))
    return cases


def run_case(case, R):
    if case['lane'] == 'suite':
        from vmon import suite_lane
        return suite_lane.run(R, ID, paths=('tests/test_distribution', 'pb_bss/permutation_alignment.py', 'pb_bss/distribution/mixture_model_utils.py', 'pb_bss/initializer'))
    with instr.fp_guard():
        globals()['run_' + case['lane']](case, R)


def run_exhaustive(case, R):
    from pb_bss import permutation_alignment as pa
    K, alg = case['K'], case['alg']
    n = 0
    for vals in itertools.product((0, 1, 2), repeat=K * K):
        sm = np.array(vals).reshape(K, K)
        before = R.monitors.get('C14.perm', {}).get('checked', 0)
        pa._mapping_from_score_matrix(sm if n % 2 else sm.astype(float), algorithm=alg)
        n += 1
    R.count(f'exhaustive score matrices K={K} {alg}', n)
    if R.monitors.get('C14.perm', {}).get('checked', 0) < n:
        R.undecided('C14.perm', 'contract did not see every call')
    R.mark_nontrivial('exhaustive', K, alg)


def run_matrix(case, R):
    from pb_bss import permutation_alignment as pa
    rng = gen.rng_of(case)
    K, lead, dt = case['K'], tuple(case['lead']), case['dtype']
    shape = (*lead, K, K)
    if dt == 'float':
        # any finite scale (scores of un-normalised masks: Euclidean distances of tensors scaled by 2^60 are ~1e18)
        sm = rng.standard_normal(shape) * 10 ** (rng.uniform(-3, 3) if rng.uniform() < 0.7 else rng.uniform(-200, 200))
    elif dt == 'float-ties':
        sm = rng.integers(0, 3, size=shape).astype(float)
    elif dt == 'bool':
        sm = rng.uniform(size=shape) < 0.5              # co-occurrence / overlap indicators
    elif dt == 'uint8':
        sm = rng.integers(0, 256, size=shape).astype(np.uint8)
    elif dt.endswith('-min'):
        t = np.dtype(dt[:-4])
        sm = rng.integers(-5, 6, size=shape).astype(t)
        sm[rng.uniform(size=shape) < 0.4] = np.iinfo(t).min
    else:
        t = np.dtype(dt)
        sm = rng.integers(np.iinfo(t).min // 2, np.iinfo(t).max // 2, size=shape).astype(t)
    if case['rs'][-1] % 3 == 0:
        sm = np.ascontiguousarray(np.swapaxes(sm, -1, -2)).swapaxes(-1, -2) if case['rs'][-1] % 2 else np.asfortranarray(sm)     # transposed / Fortran-ordered
    before = sm.copy()
    try:
        mp = pa._mapping_from_score_matrix(sm, algorithm=case['alg'])
    except Exception as e:
        if not instr.is_library_exception(e):
            raise
        R.fail('C14.perm', f'score-assignment/{case["alg"]}/raised', f'_mapping_from_score_matrix raised {type(e).__name__} on a finite matrix: {str(e)[:100]}', dtype=dt)
        return
    R.check('C14.apply', np.array_equal(sm, before), 'purity/score-matrix-modified', 'the score matrix was modified')
    if K >= 2:
        R.mark_nontrivial('matrix', K, list(lead), case['alg'], dt)
    R.sample(dict(lane='matrix', K=K, lead=list(lead), alg=case['alg'], dtype=dt, mapping=mp if mp.size <= 12 else None))


def make_mask(rng, cls, K, F, T):
    if cls == 'continuous':
        return rng.uniform(0, 1, size=(K, F, T))
    if cls == 'binary':
        return (rng.uniform(size=(K, F, T)) < 0.4).astype(float)
    if cls in ('int8', 'int32', 'uint8'):
        return rng.integers(0, 4, size=(K, F, T)).astype(cls)
    if cls == 'bool':
        return rng.uniform(size=(K, F, T)) < 0.4
    if cls == 'unitrows':
        m = rng.uniform(0.05, 1, size=(K, F, T))
        return m / np.linalg.norm(m, axis=-1, keepdims=True)          # every class row has unit L2 norm over time already
    if cls == 'huge':
        return rng.uniform(0, 1, size=(K, F, T)) * 2.0 ** 60
    if cls == 'int8-ones':
        return np.ones((K, F, T), dtype=np.int8)
    if cls == 'constant':
        return np.full((K, F, T), 0.3)
    if cls == 'zero':
        return np.zeros((K, F, T))
    m = rng.uniform(0, 1, size=(K, F, T))
    if K >= 2:
        m[1] = m[0]
    return m


def dhtv_for(rng, F, metric, alg):
    from pb_bss import permutation_alignment as pa
    width = int(rng.integers(1, F + 1))
    start = int(rng.integers(0, F - width + 1))
    shift = int(rng.integers(1, width + 1))
    return pa.DHTVPermutationAlignment(stft_size=2 * (F - 1), segment_start=start, segment_width=width, segment_shift=shift,
                                       main_iterations=int(rng.integers(1, 6)), sub_iterations=int(rng.integers(1, 3)),
                                       similarity_metric=metric, algorithm=alg), dict(start=start, width=width, shift=shift)


def run_aligner(case, R):
    from pb_bss import permutation_alignment as pa
    rng = gen.rng_of(case)
    K, F, T = case['K'], case['F'], case['T']
    mask = make_mask(rng, case['mask'], K, F, T)
    if case['rs'][-1] % 3 == 0:
        mask = np.ascontiguousarray(np.transpose(mask, (1, 0, 2))).transpose(1, 0, 2)      # an (F, K, T) array viewed as (K, F, T)
    before = mask.copy()
    which, metric, alg = case['aligner'], case['metric'], case['alg']
    info = dict(aligner=which, metric=metric, alg=alg, mask=case['mask'], K=K, F=F, T=T)
    args = ()
    try:
        if which == 'dhtv':
            if F == 1:
                al = pa.DHTVPermutationAlignment(stft_size=0, segment_start=0, segment_width=1, segment_shift=1, main_iterations=2, sub_iterations=1, similarity_metric=metric, algorithm=alg)
            else:
                al, plan_ = dhtv_for(rng, F, metric, alg)
                info.update(plan_)
        elif which == 'greedy':
            al = pa.GreedyPermutationAlignment(similarity_metric=metric, algorithm=alg)
        else:
            al = pa.OraclePermutationAlignment(similarity_metric=metric, algorithm=alg)
            ref = make_mask(rng, case['mask'] if rng.uniform() < 0.5 else 'continuous', K, F, T).astype(mask.dtype)
            args = (ref,)
        mapping = al.calculate_mapping(mask, *args)
        aligned = al(mask, *args)
    except Exception as e:
        if not instr.is_library_exception(e):
            raise
        R.count(f'{which} raised {type(e).__name__}: {str(e)[:70]}')
        if mask.dtype.kind == 'f':
            # "for all real masks ... including constant, zero and tied rows": a floating-point mask always has a mapping (NumPy refusing an
            # operation on boolean / narrow integer masks is an explicit exception about the dtype, counted above)
            R.fail('C14.mapping', f'mapping/{which}/raised/{metric}', f'{which} aligner ({metric}, {alg}) raised {type(e).__name__} on a finite real mask ({case["mask"]}): {str(e)[:80]}', **info)
        else:
            R.ok('C14.raised')
        return
    mapping = np.asarray(mapping)
    okp = mapping.shape == (K, F) and conds.is_perm_columns(mapping)
    R.check('C14.mapping', okp, f'mapping/{which}/{"int" if mask.dtype.kind in "iu" else "float"}/not-a-permutation',
            f'{which} ({metric}, {alg}) returned a mapping whose columns are not permutations of 0..K-1 (mask class {case["mask"]})', **info)
    R.check('C14.apply', np.array_equal(mask, before), f'purity/{which}', f'{which} aligner modified the mask it was given', **info)
    if okp:
        ok = aligned.shape == mask.shape and all(np.array_equal(aligned[:, f], mask[mapping[:, f], f]) for f in range(F))
        R.check('C14.aligned', ok, f'aligned/{which}/rows', f'{which}: aligned[k, f] != mask[mapping[k, f], f]', **info)
        # the same valid mapping stored with a narrow integer dtype must give the same rows
        for dt in (np.int8, np.uint8, np.int16, np.int32):
            if K - 1 <= np.iinfo(dt).max:
                try:
                    a2 = pa.apply_mapping(mask, mapping.astype(dt))
                    R.check('C14.aligned', np.array_equal(a2, aligned), f'apply_mapping/mapping-dtype/{np.dtype(dt).name}', f'apply_mapping with a {np.dtype(dt).name} mapping returns other rows (K={K}, F={F})', **info)
                except Exception as e:
                    if not instr.is_library_exception(e):
                        raise
                    R.count(f'apply_mapping with {np.dtype(dt).name} mapping raised {type(e).__name__}')
        if ok:
            R.check('C14.aligned', np.array_equal(np.sort(aligned, axis=0), np.sort(mask, axis=0)), f'aligned/{which}/multiset', 'per-bin multiset of values changed', **info)
    if K >= 2 and F >= 3:
        R.mark_nontrivial('aligner', which, metric, alg, case['mask'], K, F)
    R.sample(dict(lane='aligner', **info))


def run_inline(case, R):
    """EM with an inline aligner, observed through the hook: every in-loop affiliation is, per frequency, a row
    permutation of the Bayes posterior of the preceding model, and the quadratic form is permuted alike."""
    from vmon import models, mstep, scen
    al = case['aligner']
    F = case['F']
    if al == 'dhtv':
        al = f'dhtv:{2 * (F - 1)}:0:{F}:1'
    c = dict(kind=case['kind'], cls='gauss', K=case['K'], N=case['T'], D=case['D'], lead=[F], init='dirichlet:1', iters=4 if case['kind'] != 'cbmm' else 2,
             opts={'wca': [-3] if case['rs'][-1] % 2 else [-3, -1], 'saliency': ('none', 'pos', 'none', 'int', 'pos')[case['rs'][-1] % 5], 'aligner': al}, rs=case['rs'])
    # (observation weights act on the M-step only: the alignment step sees, reorders and hands on the plain posteriors whatever the saliency)
    if case['kind'] == 'cacgmm':
        c['opts']['affiliation_eps'] = 0.0
        if case['rs'][-1] % 3 == 0:
            c['opts']['mask'] = True          # a source activity mask together with the aligner: masked rows move with their class
    s = scen.build(c)
    try:
        with instr.options(**s.copts), instr.capture() as ev:
            scen.fit(s)
    except Exception as e:
        if not instr.is_library_exception(e):
            raise
        R.count(f'fit with inline aligner raised {type(e).__name__}: {str(e)[:70]}')
        R.ok('C14.raised')
        return
    tol = 1e-5 if s.kind == 'cbmm' else 1e-9
    with instr.disarmed():
        for i in range(1, len(ev)):
            prev = ev[i - 1]['model']
            ref = models.bayes_posterior(s.kind, prev, s.data, mask=s.mask)
            aff = np.asarray(ev[i]['affiliation'], dtype=float)
            qf = ev[i].get('quadratic_form')
            qref = None
            if qf is not None:
                qref = mstep.cacg_quadratic_form(oracles.unit(s.data['y']), models.cacg_covariance(prev.cacg))
            for f in range(F):
                found = [p for p in itertools.permutations(range(s.K)) if np.abs(aff[f] - ref[f, list(p)]).max() <= tol]
                R.check('C14.inline', len(found) >= 1, f'inline/{s.kind}/posterior-not-a-row-permutation', f'iteration {i}, bin {f}: in-loop posterior is not a row permutation of the Bayes posterior', aligner=case['aligner'])
                if found and qref is not None:
                    if len(found) > 1:
                        R.undecided('C14.inline', 'rows not distinct')
                        continue
                    p = list(found[0])
                    r = float((np.abs(np.asarray(qf)[f] - qref[f, p]) / qref[f, p]).max())
                    lam_ = np.asarray(prev.cacg.covariance_eigenvalues)[f]
                    condq = float((lam_.max(-1) / np.maximum(lam_.min(-1), 1e-300)).max())        # z^H B^-1 z carries a relative error ~ eps cond(B)
                    R.check('C14.inline', r <= 1e-6 + 1e3 * np.finfo(float).eps * condq, f'inline/{s.kind}/quadratic-form-permuted-differently', f'iteration {i}, bin {f}: quadratic form not permuted with the posterior (rel {r:.2e})', aligner=case['aligner'])
            colsum = float(np.abs(aff.sum(1) - ref.sum(1)).max())          # (one, or zero where the activity mask switches every source off)
            R.check('C14.inline', colsum <= 1e-9, f'inline/{s.kind}/class-sum', f'sum over classes changed by alignment ({colsum:.2e})')
            # which reordering: the one the configured aligner computes from the (soft) Bayes posterior itself
            try:
                kft = np.ascontiguousarray(np.transpose(ref, (1, 0, 2)))
                want = np.asarray(scen.make_aligner(al).calculate_mapping(kft))
                rr = np.random.default_rng([*case['rs'], i])
                stable = all(np.array_equal(want, np.asarray(scen.make_aligner(al).calculate_mapping(kft * (1 + 1e-9 * rr.uniform(-1, 1, size=kft.shape))))) for _ in range(2))
                got_map = np.empty_like(want)
                okmap = True
                for f in range(F):
                    found = [p for p in itertools.permutations(range(s.K)) if np.abs(aff[f] - ref[f, list(p)]).max() <= tol]
                    if len(found) != 1:
                        okmap = False
                        break
                    got_map[:, f] = found[0]
                if okmap and stable:
                    R.check('C14.inline', np.array_equal(got_map, want), f'inline/{s.kind}/not-the-aligners-mapping',
                            f'iteration {i}: the posteriors were reordered with another mapping than the configured aligner computes from them ({int((got_map != want).any(0).sum())} of {F} bins differ)', aligner=case['aligner'])
                elif okmap:
                    R.undecided('C14.inline', 'aligner mapping sensitive to 1e-9 perturbations (near-tie)')
            except Exception as e:
                if not instr.is_library_exception(e):
                    raise
                R.count(f'recomputing the aligner mapping raised {type(e).__name__}')
    R.mark_nontrivial('inline', s.kind, case['aligner'], s.K, F)


def run_builtinmodel(case, R):
    """the built-in spatial/spectral alignment as the integration models use it inside EM (hook trace): every in-loop posterior is the
    Bayes posterior of the preceding model with the spatial classes re-paired by one permutation per bin - streams weighted as the model
    says - and that pairing is not worse than the identity under the routine's own criterion"""
    from vmon import models, scen
    c = dict(kind=case['kind'], cls='gauss', K=case['K'], N=case['T'], D=case['D'], lead=[case['F']], init='dirichlet:1', iters=3,
             opts={'wca': case['wca'], 'saliency': 'none', 'spatial_weight': case['sw'][0], 'spectral_weight': case['sw'][1], 'inline_permutation_alignment': True,
                   'affiliation_eps': 0.0}, rs=case['rs'])
    s = scen.build(c)
    try:
        with instr.options(**s.copts), instr.capture() as ev:
            scen.fit(s)
    except Exception as e:
        if not instr.is_library_exception(e):
            raise
        R.count(f'fit with built-in alignment raised {type(e).__name__}: {str(e)[:70]}')
        R.ok('C14.raised')
        return
    K, F = s.K, case['F']
    with instr.disarmed():
        for i in range(1, len(ev)):
            prev = ev[i - 1]['model']
            spat, spec = models.stream_log_pdfs(s.kind, prev, s.data)
            lw = models.log_weight(s.kind, prev, K)
            aff = np.asarray(ev[i]['affiliation'], dtype=float)
            for f in range(F):
                lwf = np.broadcast_to(lw, (F, K, aff.shape[-1]))[f]
                crit, match = {}, []
                for p in itertools.permutations(range(K)):
                    lp = spat[f, list(p)] + spec[f]
                    cand = np.exp(lp - lp.max(0, keepdims=True)); cand = cand / cand.sum(0, keepdims=True)
                    crit[p] = float((cand * lp).sum())
                    post = oracles.log_softmax_posterior(lwf, lp, None)
                    if np.abs(post - aff[f]).max() <= 1e-8:
                        match.append(p)
                R.check('C14.builtin', len(match) >= 1, f'builtin-model/{s.kind}/posterior-of-no-pairing', f'iteration {i}, bin {f}: the in-loop posterior is not the Bayes posterior of any pairing of the (weighted) spatial and spectral classes',
                        sw=case['sw'], wca=case['wca'])
                if match:
                    ident = tuple(range(K))
                    best = max(crit[p] for p in match)
                    R.check('C14.builtin', best >= crit[ident] - 1e-9 * max(1.0, abs(crit[ident])), f'builtin-model/{s.kind}/worse-than-identity',
                            f'iteration {i}, bin {f}: chosen pairing has criterion {best} < identity {crit[ident]}', sw=case['sw'])
    R.mark_nontrivial('builtin-model', s.kind, K, F, case['sw'], case['wca'])


def run_builtin(case, R):
    import pb_bss.distribution.mixture_model_utils as mmu
    rng = gen.rng_of(case)
    K, F, T = case['K'], case['F'], case['T']
    spatial = rng.standard_normal((F, K, T)) * case['spread']
    spectral = rng.standard_normal((F, K, T)) * case['spread']
    if case['rs'][-1] % 4 == 0 and T >= 2:
        # outlier frames: the whole frame lies ~900 nats below the rest of the bin under both streams (a silent or clipped frame)
        t0 = int(rng.integers(T))
        spatial[:, :, t0] -= 900.0
        spectral[:, :, t0] -= 300.0
    wk = case['wkind']
    if wk == 'fk':
        w = rng.dirichlet([1.0] * K, size=F)[..., None]
    elif wk == 'k':
        w = rng.dirichlet([1.0] * K)[None, :, None]
    elif wk == 'kt':
        w = np.swapaxes(rng.dirichlet([1.0] * K, size=T), 0, 1)[None]
    else:
        w = np.asarray(1 / K).reshape(1, 1, 1)
    eps = case['eps']
    try:
        got = mmu.log_pdf_to_affiliation_for_integration_models_with_inline_pa(w, spatial.copy(), spectral.copy(), affiliation_eps=eps)
    except Exception as e:
        if not instr.is_library_exception(e):
            raise
        R.fail('C14.builtin', 'builtin/raised', f'{type(e).__name__}: {str(e)[:100]}')
        return
    wb = np.broadcast_to(w, (F, K, T))

    def crit(lp):
        a = oracles.log_softmax_posterior(0.0, lp)
        return float((a * lp).sum())
    for f in range(F):
        vals, match = {}, []
        for p in itertools.permutations(range(K)):
            lp = spatial[f, list(p)] + spectral[f]
            vals[p] = crit(lp)
            post = oracles.log_softmax_posterior(np.log(wb[f]), lp)
            if eps:
                post = np.clip(post, eps, 1 - eps)
            if np.abs(post - got[f]).max() <= 1e-9:
                match.append(p)
        if not R.check('C14.builtin', len(match) >= 1, 'builtin/not-a-posterior-of-any-permutation', f'bin {f}: output is not the Bayes posterior for any permutation of the spatial stream', K=K, wkind=wk):
            continue
        best = max(vals.values())
        ident = vals[tuple(range(K))]
        sc = max(1.0, abs(best))
        chosen = max(vals[p] for p in match)
        R.check('C14.builtin', chosen >= ident - 1e-9 * sc, 'builtin/worse-than-identity', f'bin {f}: chosen permutation has criterion {chosen} < identity {ident}', K=K)
        R.check('C14.builtin', chosen >= best - 1e-9 * sc, 'builtin/not-maximal', f'bin {f}: chosen permutation has criterion {chosen} < maximum {best}', K=K)
    R.check('C14.builtin', float(np.abs(got.sum(1) - 1).max()) <= K * eps + 1e-12, 'builtin/class-sum', 'sum over classes is not one')
    if K >= 2:
        R.mark_nontrivial('builtin', K, F, wk, eps, case['spread'])


def post_verdict(M, tier):
    need = 2 * (3 + 81 + 19683)
    got = sum(v for k, v in M['counters'].items() if k.startswith('exhaustive score matrices'))
    return [] if got == need else [f'exhaustive score-matrix lane incomplete ({got} of {need})']

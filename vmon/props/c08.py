"""C08 - trainers return the documented weighted estimators and EM alternates them."""
import itertools

import numpy as np

from vmon import diff, gen, instr, models, mstep, oracles, scen

from vmon.scale import S

ID = 'C08'
RULE = ('cases = (a) single-distribution trainer calls compared with explicit-sum estimators (Watson / Bingham parameters in the '
        'residual domain of their defining equations), (b) mixture fits observed through the hook: every in-loop model must equal '
        'the independent M-step applied to the (affiliation, quadratic form) the library reported, every in-loop affiliation / '
        'quadratic form the Bayes posterior / z^H B^-1 z of the preceding reported model (one-step conformance, up to one row '
        'permutation per frequency with an inline aligner), (c) integer saliency versus physically repeated observations; '
        'non-trivial = N > D, non-constant saliency or non-degenerate posterior; distinct by (lane, kind/family, options, K, D, lead)')
DECIDING = ['C08.trainer', 'C08.mstep', 'C08.estep', 'C08.repeat', 'C08.weights', 'C08.cacg-fixed-point']
MIN_DECIDED = {'quick': 200, 'thorough': 2000}
NEEDS_HOOK = True
CASE_TIMEOUT = {'quick': 300, 'thorough': 900}
ASSUMPTIONS = ['numpy.linalg.eigh/inv, scipy.special.gammainc and 160-digit decimal arithmetic are correct',
               'Watson concentration and Bingham eigenvalues are judged in the residual domain of their defining equations (the library solves them numerically)']
FAMS = ['gauss', 'diag', 'spher', 'ccsg', 'vmf', 'watson', 'cacg', 'bingham']


def plan(tier, seed):
    rng = np.random.default_rng([seed, 108])
    pick = lambda xs: xs[int(rng.integers(len(xs)))]
    cases, i = [], 0
    n = S(tier, 20, 200)
    for fam in FAMS:
        for r in range(n if fam != 'bingham' else max(5, n // 4)):
            D = int(rng.integers(2, 8)) if fam != 'bingham' else int(rng.integers(2, 6))
            cases.append(dict(lane='trainer', fam=fam, D=D, N=int(rng.integers(D + 1, 60)), lead=pick([[], [2], [2, 2]]) if fam != 'bingham' else pick([[], [2]]),
                              saliency=pick(['none', 'pos', 'zeros', 'int', 'pos', 'tiny', 'huge']), spread=float(10 ** rng.uniform(-1, 1.3)), rs=[seed, 8, i]))
            i += 1
    m = S(tier, 22, 220)
    for kind in models.KINDS:
        for r in range(m if kind != 'cbmm' else max(4, m // 6)):
            K = int(rng.integers(2, 5)); D = int(rng.integers(2, 8))
            if kind == 'cbmm':
                K = int(rng.integers(2, 4)); D = int(rng.integers(2, 5))
            lead = [pick([1, 3, 5])] if kind in models.INTEGRATION else (pick([[], [3], [5], [2, 2]]) if kind != 'cbmm' else pick([[], [3]]))
            N = int(rng.integers(max(D + 1, 3 * K), 8 * K + D + 10))
            o = scen.sample_opts(rng, kind, lead)
            if o.get('saliency') == 'zeros':
                o['saliency'] = 'pos'
            iters = int(pick([1, 2, 3, 5, 8])) if kind != 'cbmm' else int(pick([1, 2, 3]))
            if kind == 'cbmm' and r % 2 == 0:
                # the few Bingham mixture cases: every second one with a clipping constant that is visible against the (loose) Bingham tolerance,
                # a start that saturates posteriors, and at least one E-step inside the loop
                o['affiliation_eps'] = float(pick([1e-3, 0.02])); iters = int(pick([2, 3]))
            cases.append(dict(lane='trace', kind=kind, cls=pick(['gauss', 'gauss', 'dup', 'ragged']), K=K, N=N, D=D, lead=lead, layout=pick(['c', 'c', 'f', 'tview']),
                              offset=float(pick([0, 0, 1e4, 1e6])) if kind in ('gmm', 'gcacgmm') else 0.0,
                              init=pick(['dirichlet:1', 'dirichlet:0.3', 'blur:0.3', 'onehot', 'onehot:bool', 'onehot:int']), iters=iters, opts=o, rs=[seed, 9, i]))
            i += 1
    p = S(tier, 10, 100)
    for kind in list(models.KINDS) + ['T:gauss', 'T:diag', 'T:spher', 'T:ccsg', 'T:vmf', 'T:watson', 'T:bingham']:
        for r in range(p if kind not in ('cbmm', 'T:bingham') else max(3, p // 4)):
            K = int(rng.integers(2, 4)); D = int(rng.integers(2, 6))
            if kind in ('cbmm', 'T:bingham'):
                K = 2; D = int(rng.integers(2, 4))
            lead = [pick([1, 3])] if kind in models.INTEGRATION else (pick([[], [3]]) if kind not in ('cbmm', 'T:bingham') else [])
            o = {}
            if not kind.startswith('T:'):
                o = scen.sample_opts(rng, kind, lead)
                o['saliency'] = 'none'
                o.pop('mask', None); o.pop('aligner', None)
                if 'inline_permutation_alignment' in o:
                    o['inline_permutation_alignment'] = False
            cases.append(dict(lane='repeat', kind=kind, cls='gauss', K=K, N=int(rng.integers(max(D + 1, 3 * K), 6 * K + D + 6)), D=D, lead=lead,
                              init=pick(['dirichlet:1', 'blur:0.3']), iters=int(pick([1, 2, 3, 5])) if kind != 'cbmm' else 1, opts=o, rs=[seed, 10, i]))
            i += 1
    q = S(tier, 30, 300)
    for r in range(q):
        cases.append(dict(lane='weights', K=int(rng.integers(1, 6)), N=int(rng.integers(1, 20)), lead=pick([[], [3], [2, 3]]),
                          saliency=pick(['none', 'pos', 'zeros']), wca=pick([[-1], [-3], [-3, -1], [-2], -1, -2, -3]), rs=[seed, 11, i]))
        i += 1
    return cases


def run_case(case, R):
    with instr.fp_guard():
        {'trainer': run_trainer, 'trace': run_trace, 'repeat': run_repeat, 'weights': run_weights}[case['lane']](case, R)


def rel(a, b, floor=0.0):
    """max |a - b| relative to the scale of the reference (not below `floor`: quantities that collapse to rounding level, e.g. the
    variance of a class of identical points, are compared on the scale of the data)"""
    a, b = np.asarray(a), np.asarray(b)
    if a.shape != b.shape:
        return np.inf
    sc = max(float(np.abs(b).max()) if b.size else 0.0, floor, 1e-300)
    return float(np.abs(a - b).max() / sc) if a.size else 0.0


def make_saliency(rng, kind, shape):
    if kind == 'none':
        return None
    if kind == 'pos':
        return rng.uniform(0.1, 1.0, size=shape)
    if kind == 'zeros':
        s = rng.uniform(0.1, 1.0, size=shape) * (rng.uniform(size=shape) < 0.7)
        s[..., :2] = 0.5
        return s
    if kind == 'tiny':
        return rng.uniform(0.1, 1.0, size=shape) * 10.0 ** rng.uniform(-25, -15)      # positive sum far below machine epsilon
    if kind == 'huge':
        return rng.uniform(0.1, 1.0, size=shape) * 10.0 ** rng.uniform(15, 25)
    return rng.integers(1, 5, size=shape).astype(float)


# ---------------------------------------------------------------------------
# (a) single-distribution trainers
# ---------------------------------------------------------------------------

def check_watson(R, mon, model, S, g_sum_ok, dim, max_conc, key, **info):
    D = dim
    """mode = principal eigenvector of scatter S (projector), concentration solves ratio(kappa) = lambda_max."""
    lam, U = np.linalg.eigh(S)
    top = U[..., -1]
    lmax = lam[..., -1]
    gap = lam[..., -1] - lam[..., -2]
    P_ref = np.einsum('...a,...b->...ab', top, top.conj())
    P = np.einsum('...a,...b->...ab', np.asarray(model.mode), np.asarray(model.mode).conj())
    ok_gap = gap > 1e-6
    if ok_gap.any():
        dv = float(np.abs(P - P_ref)[ok_gap].max())
        R.check(mon, dv <= 1e-7 / float(gap[ok_gap].min()) * 1e-6 + 1e-8, key + '/watson-mode', f'Watson mode is not the principal eigenvector of the weighted scatter (projector dev {dv:.3e})', dev=dv, **info)
    kappa = np.asarray(model.concentration, dtype=float)
    lo, hi = mstep.watson_ratio(1e-3, D), mstep.watson_ratio(max_conc, D)
    inside = (lmax > lo + 1e-6) & (lmax < hi - 1e-6)
    if inside.any():
        res = np.abs(mstep.watson_ratio(kappa[inside], D) - lmax[inside])
        R.check(mon, float(res.max()) <= 2e-7, key + '/watson-concentration', f'Watson concentration does not reproduce the top scatter eigenvalue (residual {res.max():.3e})', dev=float(res.max()), **info)
    below = lmax < lo - 1e-6
    if below.any():
        R.check(mon, bool((kappa[below] == 0).all()), key + '/watson-concentration-low', 'top eigenvalue below the table: concentration must be 0', **info)
    above = lmax > hi + 1e-6
    if above.any():
        R.check(mon, bool((kappa[above] == max_conc).all()), key + '/watson-concentration-high', f'top eigenvalue above the table: concentration must be max_concentration, got {kappa[above]}', **info)


def check_bingham(R, mon, model, S, max_conc, key, **info):
    lam_s, U_s = np.linalg.eigh(S)
    lamb = np.asarray(model.covariance_eigenvalues, dtype=float)
    Ub = np.asarray(model.covariance_eigenvectors)
    D = S.shape[-1]
    for idx in np.ndindex(*lam_s.shape[:-1]):
        ls, lb = lam_s[idx], lamb[idx]
        # eigenvectors: the Bingham matrix commutes with the scatter (same eigenvectors)
        A = (Ub[idx] * lb) @ Ub[idx].conj().T
        comm = float(np.abs(A @ S[idx] - S[idx] @ A).max()) / max(1.0, float(np.abs(lb).max()))
        R.check(mon, comm <= 1e-6, key + '/bingham-eigenvectors', f'Bingham parameter matrix does not share the scatter eigenvectors (commutator {comm:.3e})', dev=comm, **info)
        if np.min(np.diff(np.sort(ls))) < 1e-6 or ls.min() < 1e-9:
            R.undecided(mon, 'degenerate scatter eigenvalues')
            continue
        if np.isfinite(max_conc) and (lb <= -max_conc + 1e-3).any():
            R.undecided(mon, 'bingham bound active')
            continue
        order_b = np.argsort(lb)
        amp = oracles.bingham_cancellation(lb)
        grad = oracles.bingham_grad_log_norm_hp(lb[order_b])
        res = float(np.abs(grad - np.sort(ls)).max())
        k2 = key + ('/bingham-eigenvalues' if amp < 1e6 else '/bingham-eigenvalues/cancellation-amplification>=1e6')
        if 1e-5 < res <= 2e-4:
            R.count('Bingham eigenvalue residual between 1e-5 and 2e-4 (solver accuracy on near-degenerate scatter)')
        # the solver's own stopping rule (scipy defaults 1e-8) leaves residuals <= 1e-7 on well separated scatter eigenvalues (measured: 150 of
        # 150 random scatters); only nearly degenerate ones or concentrations with a cancelling normaliser stop at 1e-5 .. 2e-4
        regular = np.min(np.diff(np.sort(ls))) >= 1e-2 and ls.min() >= 1e-2 and amp < 1e2
        R.check(mon, res <= (5e-6 if regular else 2e-4), k2, f'Bingham eigenvalues do not solve grad log c = scatter eigenvalues (residual {res:.3e}, amplification {amp:.1e})', dev=res, amp=amp, **info)


def run_trainer(case, R):
    from pb_bss import distribution as d
    from pb_bss.distribution.complex_bingham import ComplexBinghamTrainer
    rng = gen.rng_of(case)
    fam, D, N, lead = case['fam'], case['D'], case['N'], tuple(case['lead'])
    real = fam in ('gauss', 'diag', 'spher', 'vmf')
    if real:
        y = np.einsum('...ab,...nb->...na', np.linalg.cholesky(gen.hpd(rng, D, cond=10.0, lead=lead, real=True)), rng.standard_normal((*lead, N, D)))
        y = y + oracles.unit(rng.standard_normal((*lead, 1, D))) * case['spread'] * (1 if case['rs'][-1] % 3 else float(rng.choice([1e3, 1e5, 1e6])))
    else:
        y = np.einsum('...ab,...nb->...na', np.linalg.cholesky(gen.hpd(rng, D, cond=case['spread'] ** 2 + 1, lead=lead)), gen.cnormal(rng, (*lead, N, D)))
    if fam in ('watson', 'ccsg') and case['rs'][-1] % 4 == 1 and N >= 4:
        y[..., rng.permutation(N)[:max(1, N // 5)], :] = 0          # silent frames: they carry weight but no direction / power
    sal = make_saliency(rng, case['saliency'] if fam != 'cacg' else 'none', (*lead, N))
    g = (np.ones((*lead, N)) if sal is None else sal)[..., None, :]      # class axis of size 1 for the oracles
    mon = 'C08.trainer'
    info = dict(fam=fam, D=D, N=N, lead=list(lead), saliency=case['saliency'])
    try:
        if fam in ('gauss', 'diag', 'spher'):
            ct = {'gauss': 'full', 'diag': 'diagonal', 'spher': 'spherical'}[fam]
            m = d.GaussianTrainer().fit(y, saliency=sal, covariance_type=ct)
            mean, cov = mstep.gaussian(y, g, ct)
            off = float(np.abs(mean).max() / max(float(np.std(y - mean[..., 0:1, :][..., 0, :][..., None, :])), 1e-300))
            ctol = 1e-9 + 64 * np.finfo(float).eps * off
            R.check(mon, rel(m.mean, mean[..., 0, :]) <= 1e-10, f'estimator/{fam}/mean', f'Gaussian mean is not the weighted sample mean (rel {rel(m.mean, mean[..., 0, :]):.2e})', **info)
            c = cov[..., 0, :, :] if ct == 'full' else (cov[..., 0, :] if ct == 'diagonal' else cov[..., 0])
            R.check(mon, rel(m.covariance, c) <= ctol, f'estimator/{fam}/covariance', f'Gaussian covariance ({ct}) is not the pooled weighted scatter (rel {rel(m.covariance, c):.2e})', **info)
        elif fam == 'ccsg':
            m = d.ComplexCircularSymmetricGaussianTrainer().fit(y, saliency=sal)
            S = mstep.scatter(y, g)[..., 0, :, :]
            R.check(mon, rel(m.covariance, S) <= 1e-10, 'estimator/ccsg/covariance', f'complex Gaussian covariance is not the weighted outer-product mean (rel {rel(m.covariance, S):.2e})', **info)
        elif fam == 'vmf':
            kmin, kmax = float(rng.choice([1e-10, 1e-2])), float(rng.choice([500, 20]))
            m = d.VonMisesFisherTrainer().fit(y, saliency=sal, min_concentration=kmin, max_concentration=kmax)
            mean, kappa, rbar = mstep.vmf(oracles.unit(y), g, kmin, kmax)
            R.check(mon, rel(m.mean, mean[..., 0, :]) <= 1e-10, 'estimator/vmf/mean', f'vMF mean is not the normalised weighted resultant (rel {rel(m.mean, mean[..., 0, :]):.2e})', **info)
            R.check(mon, rel(m.concentration, kappa[..., 0]) <= 1e-9, 'estimator/vmf/concentration', f'vMF concentration is not the clipped Banerjee estimate (rel {rel(m.concentration, kappa[..., 0]):.2e})', kmin=kmin, kmax=kmax, **info)
        elif fam == 'watson':
            mc = float(rng.choice([500, 100, 30]))
            m = d.ComplexWatsonTrainer(max_concentration=mc).fit(y, saliency=sal)
            S = mstep.scatter(oracles.unit(y), g)[..., 0, :, :]
            check_watson(R, mon, m, S, True, D, mc, 'estimator/watson', **info)
        elif fam == 'cacg':
            norm = [None, 'eigenvalue', 'trace', False][int(rng.integers(1, 4))]
            floor = float(rng.choice([1e-10, 1e-6]))
            herm = bool(rng.integers(0, 2))
            it = int(rng.integers(1, 6))
            m = d.ComplexAngularCentralGaussianTrainer().fit(y, hermitize=herm, covariance_norm=norm, eigenvalue_floor=floor, iterations=it)
            z = oracles.unit(y)
            q = np.ones((*lead, 1, N))
            for _ in range(it):
                cov, U, lam = mstep.cacg_step(z, g * 0 + 1.0, q, norm=norm, floor=floor)
                q = mstep.cacg_quadratic_form(z, cov)
            got = models.cacg_covariance(m)
            r = rel(got, cov[..., 0, :, :])
            R.check(mon, r <= 1e-8, 'estimator/cacg/iterated-update', f'cACG trainer after {it} iterations is not {it} eigenvalue-normalised Tyler updates (rel {r:.2e})', norm=norm, floor=floor, hermitize=herm, **info)
            if N > 2 * D and norm == 'eigenvalue' and not lead:
                m2 = d.ComplexAngularCentralGaussianTrainer().fit(y, iterations=200)
                B = models.cacg_covariance(m2)
                T, _, _ = mstep.cacg_step(z, np.ones((1, N)), mstep.cacg_quadratic_form(z, B[None]), norm='eigenvalue', floor=1e-10)
                res = rel(T[0], B)
                R.check('C08.cacg-fixed-point', res <= 1e-8, 'estimator/cacg/fixed-point', f'200 cACG iterations do not satisfy B ~ (D/N) sum z z^H / (z^H B^-1 z) (residual {res:.2e})', **info)
        else:
            m = ComplexBinghamTrainer(max_concentration=500).fit(y, saliency=sal)
            S = mstep.scatter(oracles.unit(y), g)[..., 0, :, :]
            check_bingham(R, mon, m, S, 500, 'estimator/bingham', **info)
    except Exception as e:
        if not instr.is_library_exception(e):
            raise
        R.count(f'{fam} trainer raised {type(e).__name__}: {str(e)[:60]}')
        R.undecided(mon, 'trainer raised')
        return
    if N > D:
        R.mark_nontrivial('trainer', fam, D, list(lead), case['saliency'])
    R.sample(dict(lane='trainer', **info))


# ---------------------------------------------------------------------------
# (b) one-step conformance of the EM trace
# ---------------------------------------------------------------------------

def check_mstep(R, s, model, aff, qf, where):
    """model must be the documented M-step of (aff * saliency, qf)."""
    kind = s.kind
    mon = 'C08.mstep'
    sal = s.saliency
    g = aff if sal is None else aff * sal[..., None, :]
    g = np.asarray(g, dtype=np.float64)
    info = dict(where=where, opts=s.case_opts)
    wca = s.opts.get('weight_constant_axis', (-1,))
    w_ref = mstep.weights(aff, sal, wca, kind)
    w = np.asarray(model.weight, dtype=float)
    ok = w.shape == np.shape(w_ref) and (np.abs(w - w_ref).max() if w.size else 0.0) <= 1e-9
    R.check(mon, ok, f'mstep/{kind}/weight', f'{where}: mixture weights are not the (saliency weighted) mean affiliation over the tied axes (shape {w.shape} vs {np.shape(w_ref)})', **info)
    y = s.data['y']
    if kind in ('cacgmm', 'gcacgmm', 'vmfcacgmm'):
        z = oracles.unit(y.astype(np.complex128))
        cov, U, lam = mstep.cacg_step(z, g, np.asarray(qf, dtype=float), norm=s.copts.get('covariance_norm', 'eigenvalue'), floor=s.copts.get('eigenvalue_floor', 1e-10))
        r = rel(models.cacg_covariance(model.cacg), cov)
        tol = 1e-8 if y.dtype == np.complex128 else 1e-3
        R.check(mon, r <= tol, f'mstep/{kind}/cacg', f'{where}: cACG parameters are not the Tyler update with the reported quadratic form (rel {r:.2e})', dev=r, **info)
    if kind == 'cwmm':
        S = mstep.scatter(oracles.unit(y), g)
        check_watson(R, mon, model.complex_watson, S, True, s.D, s.tkw.get('max_concentration', 500), f'mstep/{kind}', **info)
    if kind == 'cbmm':
        S = mstep.scatter(oracles.unit(y), g)
        check_bingham(R, mon, model.complex_bingham, S, s.tkw.get('max_concentration', np.inf), f'mstep/{kind}', **info)
    if kind in ('gmm', 'gcacgmm'):
        ct = s.opts.get('covariance_type', 'full' if kind == 'gmm' else 'spherical')
        if kind == 'gmm':
            mean, cov = mstep.gaussian(y.astype(float), g, ct)
        else:
            F, T, E = s.data['e'].shape
            gg = np.transpose(g, (1, 0, 2)).reshape(s.K, F * T)
            mean, cov = mstep.gaussian(s.data['e'].reshape(F * T, E).astype(float), gg, ct)
        tol = 1e-9 if y.dtype in (np.float64, np.complex128) else 1e-3
        R.check(mon, rel(model.gaussian.mean, mean) <= tol, f'mstep/{kind}/gaussian-mean', f'{where}: Gaussian means are not the posterior-weighted means (rel {rel(model.gaussian.mean, mean):.2e})', **info)
        if 'fixed_covariance' in s.opts:
            R.check(mon, np.array_equal(model.gaussian.covariance, s.opts['fixed_covariance']), f'mstep/{kind}/fixed-covariance', f'{where}: fixed covariance not kept', **info)
        else:
            xg = np.asarray(s.data['e'] if kind == 'gcacgmm' else y)
            vfloor = 1e-6 * float(np.median(np.var(xg.astype(float), axis=-2)))   # per-coordinate spread; a common offset must not inflate it
            # rounding of x - mean for observations of magnitude M: every centred value carries an absolute error ~ eps M, hence the
            # scatter an error ~ eps M sqrt(cov) + (eps M)^2 (matters for classes whose spread is at the resolution of the offset)
            epsM = 64 * float(np.finfo(xg.dtype).eps) * float(np.abs(xg).max())
            a, b = np.asarray(model.gaussian.covariance, dtype=float), np.asarray(cov, dtype=float)
            if a.shape != b.shape:
                dv = np.inf
            else:
                sc = max(float(np.abs(b).max()), vfloor, 1e-300)
                dv = float(np.abs(a - b).max() / (tol * 10 * sc + epsM * np.sqrt(sc) + epsM ** 2))
            R.check(mon, dv <= 1, f'mstep/{kind}/gaussian-covariance', f'{where}: Gaussian covariances ({ct}) are not the posterior-weighted scatter (deviation {dv:.2e} x tolerance)', **info)
    if kind in ('vmfmm', 'vmfcacgmm'):
        kmin, kmax = s.opts.get('min_concentration', 1e-10), s.opts.get('max_concentration', 500)
        if kind == 'vmfmm':
            mean, kappa, _ = mstep.vmf(oracles.unit(y.astype(float)), g, kmin, kmax)
        else:
            F, T, E = s.data['e'].shape
            gg = np.transpose(g, (1, 0, 2)).reshape(s.K, F * T)
            mean, kappa, _ = mstep.vmf(oracles.unit(s.data['e'].reshape(F * T, E).astype(float)), gg, kmin, kmax)
        tol = 1e-9 if y.dtype in (np.float64, np.complex128) else 1e-3
        R.check(mon, rel(model.vmf.mean, mean) <= tol, f'mstep/{kind}/vmf-mean', f'{where}: vMF means are not the normalised weighted resultants (rel {rel(model.vmf.mean, mean):.2e})', **info)
        R.check(mon, rel(model.vmf.concentration, kappa) <= tol * 10, f'mstep/{kind}/vmf-concentration', f'{where}: vMF concentrations are not the clipped Banerjee estimates (rel {rel(model.vmf.concentration, kappa):.2e})', **info)


def match_rows(a, b, tol):
    """is a[f] a row permutation of b[f] for every f (arrays (F, K, T))? returns per f the list of all matching perms, or None."""
    F, K, _ = a.shape
    out = []
    for f in range(F):
        found = [p for p in itertools.permutations(range(K)) if np.abs(a[f] - b[f, list(p)]).max() <= tol]
        if not found:
            return None
        out.append(found)          # several when posterior rows coincide (classes masked out in this bin, duplicate classes)
    return out


def run_trace(case, R):
    s = scen.build(case)
    s.case_opts = case['opts']
    kind = s.kind
    try:
        with instr.options(**s.copts), instr.capture() as ev:
            model = scen.fit(s)
    except Exception as e:
        if not instr.is_library_exception(e):
            raise
        R.count(f'fit raised {type(e).__name__}: {str(e)[:60]}')
        R.undecided('C08.mstep', 'fit raised')
        return
    mass, bad = scen.class_mass(s, ev)
    if bad is not None:
        R.undecided('C08.mstep', 'class without mass')
        return
    eps = s.copts.get('affiliation_eps', 0.0) or 0.0
    single = s.data['y'].dtype in (np.complex64, np.float32)
    tol = 1e-5 if (kind == 'cbmm' or single) else 1e-9
    aligned = bool(case['opts'].get('aligner'))
    builtin = bool(case['opts'].get('inline_permutation_alignment'))
    with instr.disarmed():
        for i, e in enumerate(ev):
            qf = e.get('quadratic_form')
            if qf is None and kind in ('cacgmm', 'gcacgmm', 'vmfcacgmm'):
                R.fail('C08.mstep', 'hook/no-quadratic-form', 'hook did not report the quadratic form')
                return
            check_mstep(R, s, e['model'], e['affiliation'], qf, f'iteration {i}')
            if i == 0:
                if qf is not None:
                    R.check('C08.estep', bool((np.asarray(qf) == 1).all()), f'estep/{kind}/initial-quadratic-form', 'first M-step must use quadratic forms equal to one')
                if s.init is not None and not aligned:
                    # the first M-step weights the observations with the start itself (only E-step posteriors are clipped / masked)
                    a0 = np.asarray(e['affiliation'], dtype=float)
                    i0 = np.broadcast_to(np.asarray(s.init, dtype=float), a0.shape)
                    if s.mask is not None:
                        i0 = i0 * np.broadcast_to(s.mask, a0.shape)
                    d0 = float(np.abs(a0 - i0).max())
                    R.check('C08.mstep', d0 <= (1e-6 if single else 1e-15), f'mstep/{kind}/start-altered', f'the first M-step does not use the given initial affiliation as its weights (max dev {d0:.3e})', dev=d0, eps=eps)
                continue
            prev = ev[i - 1]['model']
            if (np.asarray(prev.weight, dtype=float) == 0).any():
                R.undecided('C08.estep', 'preceding model has zero prior weights (frame-wise tied weights from a hard start)')
                continue
            if builtin:
                R.undecided('C08.estep', 'built-in spatial/spectral alignment (covered by C14)')
                continue
            try:
                ref = models.bayes_posterior(kind, prev, s.data, mask=s.mask if kind == 'cacgmm' else None, eps=eps)
            except Exception as ex:
                if not instr.is_library_exception(ex):
                    raise
                R.undecided('C08.estep', f'oracle raised {type(ex).__name__}')
                continue
            aff = np.asarray(e['affiliation'], dtype=float)
            qref = None
            if qf is not None:
                z = oracles.unit(s.data['y'].astype(np.complex128))
                qref = mstep.cacg_quadratic_form(z, models.cacg_covariance(prev.cacg))
            if aligned:
                perms = match_rows(aff, ref, tol * 10) if s.K <= 4 else 'skip'
                if perms == 'skip':
                    R.undecided('C08.estep', 'K > 4 with aligner')
                    continue
                R.check('C08.estep', perms is not None, f'estep/{kind}/aligned-posterior', f'iteration {i}: in-loop posterior is not a per-frequency row permutation of the Bayes posterior of the preceding model', opts=case['opts'])
                if perms is not None and qref is not None:
                    # rows that coincide leave the reordering ambiguous: any reordering that explains the posteriors may explain the quadratic forms
                    r = max(min(float((np.abs(np.asarray(qf)[f] - qref[f, list(p)]) / qref[f, list(p)]).max()) for p in ps) for f, ps in enumerate(perms))
                    _l = np.asarray(prev.cacg.covariance_eigenvalues, dtype=float); cond = float((_l.max(-1) / _l.min(-1)).max())
                    R.check('C08.estep', r <= max(1e-8, 1e-14 * cond) * (1e4 if single else 1), f'estep/{kind}/aligned-quadratic-form', f'iteration {i}: quadratic forms are not permuted together with the posteriors (rel {r:.2e})', opts=case['opts'])
                continue
            dv = float(np.abs(aff - ref).max())
            R.check('C08.estep', dv <= tol, f'estep/{kind}/posterior', f'iteration {i}: affiliation entering the M-step is not the Bayes posterior of the preceding model (dev {dv:.3e})', dev=dv, opts=case['opts'])
            if qref is not None:
                r = float((np.abs(np.asarray(qf, dtype=float) - qref) / qref).max())
                _l = np.asarray(prev.cacg.covariance_eigenvalues, dtype=float); cond = float((_l.max(-1) / _l.min(-1)).max())
                R.check('C08.estep', r <= max(1e-8, 1e-14 * cond) * (1e4 if single else 1), f'estep/{kind}/quadratic-form', f'iteration {i}: quadratic form is not z^H B^-1 z of the preceding model (rel {r:.2e})', dev=r, opts=case['opts'])
    if s.N > s.D:
        R.mark_nontrivial('trace', kind, case['opts'], s.K, s.D, case['lead'])
    R.sample(dict(lane='trace', kind=kind, K=s.K, D=s.D, N=s.N, lead=case['lead'], iters=s.iterations, opts=case['opts'], init=case['init']))


# ---------------------------------------------------------------------------
# (c) integer saliency == repetition
# ---------------------------------------------------------------------------

def run_repeat(case, R):
    rng = np.random.default_rng([*case['rs'], 3])
    kind = case['kind']
    if kind.startswith('T:'):
        return run_repeat_trainer(case, R, rng)
    s = scen.build(case)
    counts = rng.integers(1, 5, size=s.N)
    sal = np.broadcast_to(counts.astype(float), (*s.lead, s.N)).copy()
    first = np.concatenate([[0], np.cumsum(counts)[:-1]])
    data_rep = {k: (np.repeat(v, counts, axis=-2) if k in ('y', 'e') else v) for k, v in s.data.items()}
    init_rep = np.repeat(s.init, counts, axis=-1)
    tol = 1e-5 if kind == 'cbmm' else 1e-8

    def run(data, init, saliency):
        s2 = scen.Scenario(); s2.__dict__.update(s.__dict__)
        s2.data, s2.init = data, init
        s2.opts = dict(s.opts)
        if saliency is not None:
            s2.opts['saliency'] = saliency
        s2.saliency = saliency
        co = dict(s.copts); co['aff_shape'] = init.shape
        with instr.options(**co), instr.capture() as ev:
            m = scen.fit(s2)
            p = models.predict(kind, m, data)
        return m, p, ev
    try:
        m1, p1, ev1 = run(s.data, s.init, sal)
        m2, p2, ev2 = run(data_rep, init_rep, None)
    except Exception as e:
        if not instr.is_library_exception(e):
            raise
        R.count(f'repeat lane raised {type(e).__name__}: {str(e)[:60]}')
        R.undecided('C08.repeat', 'fit raised')
        return

    def noise_fn(reps=(None,)):
        nz = dict(post=0.0, par=0.0)
        for rep in reps:
            rr = np.random.default_rng([*case['rs'], 4] + ([] if rep is None else [rep]))
            dd = {k: (v * (1 + 2.0 ** -50 * rr.uniform(-1, 1, size=v.shape)) if k in ('y', 'e') else v) for k, v in s.data.items()}
            m3, p3, _ = run(dd, s.init, sal)
            nz['post'] = max(nz['post'], float(np.abs(p3 - p1).max()))
            nz['par'] = max(nz['par'], diff.compare(fsel(m3), fsel(m1), rtol=tol, atol=tol)[0])
        return nz

    frame_weights = -1 not in [a for a in (s.opts.get('weight_constant_axis', (-1,)) if not isinstance(s.opts.get('weight_constant_axis', (-1,)), int) else (s.opts.get('weight_constant_axis'),))]

    def fsel(m):
        f = diff.functionals(m)
        if frame_weights:
            f = {k: v for k, v in f.items() if k != 'weight'}
        return f
    judge = diff.Judge(R, noise_fn)
    dv = float(np.abs(p2[..., first] - p1).max())
    judge('C08.repeat', dv, tol, 'post', f'repeat/{kind}/posterior', f'{kind}: integer saliency and physically repeated observations give posteriors differing by {dv:.3e}', dev=dv, opts=case['opts'])
    w, name = diff.compare(fsel(m1), fsel(m2), rtol=tol, atol=tol)
    judge('C08.repeat', w, 1.0, 'par', f'repeat/{kind}/params', f'{kind}: {name} differs between integer saliency and repetition (ratio {w:.3g})', worst=w, field=name, opts=case['opts'])
    R.mark_nontrivial('repeat', kind, case['opts'], s.K, s.D, case['lead'])
    R.sample(dict(lane='repeat', kind=kind, K=s.K, D=s.D, N=s.N, counts=counts[:8].tolist(), opts=case['opts'], posterior_dev=dv))


def run_repeat_trainer(case, R, rng):
    from pb_bss import distribution as d
    from pb_bss.distribution.complex_bingham import ComplexBinghamTrainer
    fam = case['kind'][2:]
    D, N, lead = case['D'], case['N'], tuple(case['lead'])
    real = fam in ('gauss', 'diag', 'spher', 'vmf')
    y = (rng.standard_normal((*lead, N, D)) + 1.0) if real else gen.cnormal(rng, (*lead, N, D)) @ np.linalg.cholesky(gen.hpd(rng, D, cond=10.0)).T
    counts = rng.integers(1, 5, size=N)
    sal = np.broadcast_to(counts.astype(float), (*lead, N)).copy()
    yr = np.repeat(y, counts, axis=-2)
    fit = {'gauss': lambda a, b: d.GaussianTrainer().fit(a, saliency=b, covariance_type='full'),
           'diag': lambda a, b: d.GaussianTrainer().fit(a, saliency=b, covariance_type='diagonal'),
           'spher': lambda a, b: d.GaussianTrainer().fit(a, saliency=b, covariance_type='spherical'),
           'ccsg': lambda a, b: d.ComplexCircularSymmetricGaussianTrainer().fit(a, saliency=b),
           'vmf': lambda a, b: d.VonMisesFisherTrainer().fit(a, saliency=b),
           'watson': lambda a, b: d.ComplexWatsonTrainer().fit(a, saliency=b),
           'bingham': lambda a, b: ComplexBinghamTrainer(max_concentration=500).fit(a, saliency=b)}[fam]
    try:
        m1, m2 = fit(y, sal), fit(yr, None)
    except Exception as e:
        if not instr.is_library_exception(e):
            raise
        R.count(f'{fam} trainer raised {type(e).__name__}')
        R.undecided('C08.repeat', 'trainer raised')
        return
    rt = 1e-4 if fam == 'bingham' else (1e-6 if fam == 'watson' else 1e-9)
    w, name = diff.compare(diff.functionals(m1), diff.functionals(m2), rtol=rt, atol=rt)
    R.check('C08.repeat', w <= 1, f'repeat/trainer/{fam}', f'{fam} trainer: {name} differs between integer saliency and repetition (ratio {w:.3g})', worst=w, field=name)
    R.mark_nontrivial('repeat-trainer', fam, D, list(lead))


def run_weights(case, R):
    import pb_bss.distribution.mixture_model_utils as mmu
    rng = gen.rng_of(case)
    K, N, lead = case['K'], case['N'], tuple(case['lead'])
    aff = gen.dirichlet_init(rng, lead, K, N, alpha=0.7)
    sal = make_saliency(rng, case['saliency'], (*lead, N))
    wca = case['wca']
    wca_t = tuple(wca) if isinstance(wca, list) else wca
    try:
        got = mmu.estimate_mixture_weight(aff, saliency=sal, weight_constant_axis=wca_t if rng.uniform() < 0.7 or isinstance(wca, int) else list(wca))
    except Exception as e:
        if not instr.is_library_exception(e):
            raise
        R.count(f'estimate_mixture_weight raised {type(e).__name__}')
        R.ok('C08.raised')
        return
    ref = mstep.weights(aff, sal, wca_t, 'plain')
    ok = got.shape == ref.shape and float(np.abs(got - ref).max()) <= 1e-12
    R.check('C08.weights', ok, 'weights/value', f'estimate_mixture_weight(wca={wca}, saliency={case["saliency"]}) shape {got.shape} vs {ref.shape}, dev {float(np.abs(got - ref).max()) if got.shape == ref.shape else None}',
            wca=wca, saliency=case['saliency'], lead=list(lead))
    if K >= 2 and N >= 2:
        R.mark_nontrivial('weights', wca, case['saliency'], list(lead), K)

"""C10 - PSD estimate is the mask-weighted mean outer product; condition_covariance."""
import numpy as np

from vmon import gen, instr

from vmon.scale import S

ID = 'C10'
RULE = ('cases = calls of get_power_spectral_density_matrix on complex observations with 0..3 leading axes, D 1..8, T 1..64, K 1..5, '
        'float / boolean / all-zero / absent masks with or without source axis, every valid sensor_dim / source_dim placement, '
        'time_dim != -1 for mask-free and source-axis masks, normalize on/off, compared with the explicit-loop definition in the '
        'canonical layout moved to the requested layout; plus condition_covariance against its formula; non-trivial = non-default '
        'axis layout or boolean/zero mask or leading axes; distinct by (mask kind, layout, shape)')
REACH_REQUIRED = {'PSD: source axis rolled (source_dim < -2)': ('extraction/beamformer.py', r'psd = np\.rollaxis\(psd, -3'),
                  'PSD: mask without source axis': ('extraction/beamformer.py', r'mask = np\.expand_dims\(mask, -2\)'),
                  'PSD: boolean mask cast': ('extraction/beamformer.py', r'mask = np\.asarray\(mask, dtype=np\.float64\)')}
DECIDING = ['C10.value', 'C10.structure', 'C10.purity', 'C10.condition']
MIN_DECIDED = {'quick': 300, 'thorough': 3000}
ARM = ()
ASSUMPTIONS = ['the reference is an explicit loop over leading indices, sources and frames']


def plan(tier, seed):
    rng = np.random.default_rng([seed, 110])
    n = S(tier, 500, 6000)
    pick = lambda xs: xs[int(rng.integers(len(xs)))]
    cases = []
    for i in range(n):
        nl = int(rng.integers(0, 4))
        lead = [int(rng.integers(1, 4)) for _ in range(nl)]
        mk = pick(['none', 'float-src', 'float-src', 'float-nosrc', 'bool-src', 'bool-nosrc', 'zero-src', 'zero-nosrc', 'partzero-src', 'partzero32-src', 'float32-src', 'zero32-nosrc', 'floatunit-src', 'floatunit-nosrc'])
        layout = pick(['default', 'default', 'sensor', 'sensor+source', 'time'])
        cases.append(dict(lane='psd', lead=lead, D=int(rng.integers(1, 9)), T=int(rng.integers(1, 65)), K=int(rng.integers(1, 6)), mask=mk,
                          layout=layout, normalize=bool(rng.uniform() < 0.8), rs=[seed, 10, i]))
    for i in range(n // 5):
        nl = int(rng.integers(0, 4))
        cases.append(dict(lane='cond', lead=[int(rng.integers(1, 4)) for _ in range(nl)], D=int(rng.integers(1, 9)), gamma=float(10 ** rng.uniform(-4, 1)),
                          rank=int(rng.integers(0, 9)), rs=[seed, 11, i]))
    return cases


def run_case(case, R):
    with instr.fp_guard():
        (run_psd if case['lane'] == 'psd' else run_cond)(case, R)


def reference(X, M, normalize):
    """X (lead..., D, T), M (lead..., K, T) or (lead..., T) or None -> explicit-loop PSD."""
    lead = X.shape[:-2]
    D, T = X.shape[-2:]
    if M is None:
        out = np.zeros((*lead, D, D), dtype=complex)
        for idx in np.ndindex(*lead):
            for t in range(T):
                x = X[idx][:, t]
                out[idx] += np.outer(x, x.conj())
            out[idx] /= T
        return out
    M = np.asarray(M, dtype=float)
    nosrc = M.ndim + 1 == X.ndim
    if nosrc:
        M = M[..., None, :]
    K = M.shape[-2]
    out = np.zeros((*lead, K, D, D), dtype=complex)
    for idx in np.ndindex(*lead):
        for k in range(K):
            m = M[idx][k]
            den = max(m.sum(), 1e-10) if normalize else 1.0
            for t in range(T):
                x = X[idx][:, t]
                out[idx][k] += m[t] / den * np.outer(x, x.conj())
    return out[..., 0, :, :] if nosrc else out


def place(arr, names, order):
    """arr has axes named `names` (list); return transposed to `order`."""
    return np.transpose(arr, [names.index(a) for a in order])


def run_psd(case, R):
    from pb_bss.extraction import get_power_spectral_density_matrix as psd
    rng = gen.rng_of(case)
    lead, D, T, K = tuple(case['lead']), case['D'], case['T'], case['K']
    m = len(lead)
    X = gen.cnormal(rng, (*lead, D, T)) * 10 ** rng.uniform(-3, 3)
    mk = case['mask']
    src = mk.endswith('-src')
    if mk == 'none':
        M = None
    else:
        shp = (*lead, K, T) if src else (*lead, T)
        if mk.startswith('float'):
            M = rng.uniform(0, 1, size=shp) * 10 ** rng.uniform(-3, 3)
            if mk.startswith('floatunit'):
                # masks that are normalised already, or almost: sums over time within 1e-9 .. 1e-4 of one (but not one)
                M = M / M.sum(-1, keepdims=True) * (1 + rng.choice([-1, 1], size=(*shp[:-1], 1)) * 10 ** rng.uniform(-9, -4, size=(*shp[:-1], 1)))
        elif mk.startswith('bool'):
            M = rng.uniform(size=shp) < 0.6
        elif mk.startswith('zero'):
            M = np.zeros(shp)
        else:
            M = rng.uniform(0, 1, size=shp)
            M[..., 0, :] = 0.0
        if '32' in mk:
            M = M.astype(np.float32)          # single-precision masks (network outputs)
    normalize = case['normalize']
    ref = reference(X, M, normalize)
    # layout ------------------------------------------------------------------------------------------------
    leadn = [f'L{i}' for i in range(m)]
    n = m + 2
    kw = {}
    layout = case['layout']
    obs_names = leadn + ['D', 'T']
    mask_names = leadn + (['K'] if src else []) + ['T']
    obs, msk = X, M
    exp = ref
    if layout in ('sensor', 'sensor+source') or (layout == 'time' and (M is None or src)):
        if layout == 'time':
            r = int(rng.integers(0, n - 1))         # time position (not last)
            rest = [i for i in range(n) if i != r]
            p = rest[int(rng.integers(len(rest)))]
            order = [None] * n
            order[r], order[p] = 'T', 'D'
            it = iter(leadn)
            order = [o if o else next(it) for o in order]
            obs = place(X, obs_names, order)
            kw.update(sensor_dim=p - n if rng.uniform() < 0.5 else p, time_dim=r - n if rng.uniform() < 0.5 else r)
            if src:
                # source axis only at a position that needs no roll (normalised index >= -2), time at the same index r
                cand = [q for q in (n - 1, n - 2) if q != r]
                q = cand[int(rng.integers(len(cand)))]
                morder = [None] * n
                morder[r], morder[q] = 'T', 'K'
                it = iter(leadn)
                morder = [o if o else next(it) for o in morder]
                msk = place(M, mask_names, morder)
                kw.update(source_dim=q - n)
        else:
            p = int(rng.integers(0, n - 1))
            order = list(leadn)
            order.insert(p, 'D')
            order = order + ['T']
            obs = place(X, obs_names, order)
            kw.update(sensor_dim=p - n if rng.uniform() < 0.5 else p)
            if src and layout == 'sensor+source':
                q = int(rng.integers(0, n - 1))
                morder = list(leadn)
                morder.insert(q, 'K')
                morder = morder + ['T']
                msk = place(M, mask_names, morder)
                kw.update(source_dim=q - n if rng.uniform() < 0.5 else q)
                if q - n < -2:
                    exp = np.moveaxis(ref, m, q)
    if not normalize:
        kw['normalize'] = False
    obs = np.ascontiguousarray(obs) if rng.uniform() < 0.5 else obs
    obs_before = obs.copy()
    msk_before = None if msk is None else np.array(msk, copy=True)
    if msk is not None and rng.uniform() < 0.5:
        msk = np.array(msk, copy=True); msk.setflags(write=False)
    desc = dict(lead=list(lead), D=D, T=T, K=K, mask=mk, layout=layout, kwargs={k: (v if not isinstance(v, np.generic) else v.item()) for k, v in kw.items()})
    try:
        got = psd(obs, msk, **kw)
    except Exception as e:
        if not instr.is_library_exception(e):
            raise
        R.fail('C10.value', f'raised/{mk.split("-")[0]}-mask/{layout}', f'get_power_spectral_density_matrix raised {type(e).__name__}: {str(e)[:120]}', **desc)
        return
    got = np.asarray(got)
    R.count(f'branch: mask={mk.split("-")[0].replace("32", "")} {"with" if src else "without"} source axis' if mk != 'none' else 'branch: no mask')
    if 'source_dim' in kw and (kw['source_dim'] % n - n) < -2:
        R.count('branch: source axis rolled to the front (source_dim < -2)')
    R.check('C10.purity', np.array_equal(obs, obs_before) and (msk is None or np.array_equal(msk, msk_before)), 'purity/arguments-modified', 'the PSD call modified the observation or the mask', **desc)
    if got.shape != exp.shape:
        R.fail('C10.value', f'shape/{layout}', f'PSD shape {got.shape} != expected {exp.shape}', **desc)
        return
    if not np.isfinite(got).all():
        R.fail('C10.value', f'nonfinite/{mk}', 'PSD has non-finite entries for finite inputs', **desc)
        return
    scale = float(np.abs(exp).max())
    dv = float(np.abs(got - exp).max())
    R.check('C10.value', dv <= (1e-10 if '32' not in mk else 1e-5) * scale + 1e-300, f'value/{mk.split("-")[0]}-mask/{layout}', f'PSD deviates from sum_t m x x^H / sum_t m by {dv:.3e} (scale {scale:.3e})', dev=dv, **desc)
    # structure: Hermitian PSD, zero mask -> zero, rescaling invariance ---------------------------------------------
    can = got if exp is ref else np.moveaxis(got, kw['source_dim'] % n, m)
    herm = float(np.abs(can - np.swapaxes(can.conj(), -1, -2)).max())
    R.check('C10.structure', herm <= 1e-12 * scale + 1e-300, 'structure/hermitian', f'PSD not Hermitian ({herm:.3e})', **desc)
    ev = np.linalg.eigvalsh((can + np.swapaxes(can.conj(), -1, -2)) / 2)
    R.check('C10.structure', bool((ev.min(-1) >= -1e-10 * np.maximum(ev.max(-1), 1e-300)).all()), 'structure/psd', f'PSD has a negative eigenvalue {ev.min():.3e}', **desc)
    if mk.startswith('zero'):
        R.check('C10.structure', bool((got == 0).all()), 'structure/zero-mask', 'zero mask must give a zero matrix', **desc)
    if mk.startswith('float') and normalize:
        a = float(10 ** rng.uniform(-3, 3))
        try:
            got2 = psd(obs, np.asarray(msk_before) * a, **kw)
            dv2 = float(np.abs(got2 - got).max())
            R.check('C10.structure', dv2 <= (1e-10 if '32' not in mk else 1e-5) * scale, 'structure/mask-rescaling', f'normalised PSD changes by {dv2:.3e} when the mask is scaled by {a:.3g}', **desc)
        except Exception as e:
            if not instr.is_library_exception(e):
                raise
            R.fail('C10.structure', 'structure/mask-rescaling-raised', f'{type(e).__name__}')
    if mk.startswith('bool'):
        try:
            got3 = psd(obs, np.asarray(msk_before, dtype=float), **kw)
            R.check('C10.value', np.allclose(got3, got, rtol=1e-12, atol=1e-300), 'value/bool-vs-float', 'boolean mask result differs from its float version', **desc)
        except Exception as e:
            if not instr.is_library_exception(e):
                raise
            R.count('float version of bool mask raised')
    if layout != 'default' or mk.startswith(('bool', 'zero', 'part')) or lead:
        R.mark_nontrivial(mk, layout, list(lead), sorted(desc['kwargs'].items()), D > 1, T > 1)
    R.sample(desc)


def run_cond(case, R):
    from pb_bss.extraction import condition_covariance
    rng = gen.rng_of(case)
    lead, D, gamma = tuple(case['lead']), case['D'], case['gamma']
    r = min(case['rank'], D)
    A = gen.cnormal(rng, (*lead, D, max(r, 1)))
    P = np.einsum('...ab,...cb->...ac', A, A.conj()) if r > 0 else np.zeros((*lead, D, D), dtype=complex)
    before = P.copy()
    P.setflags(write=False)
    try:
        got = condition_covariance(P, gamma)
    except Exception as e:
        if not instr.is_library_exception(e):
            raise
        R.fail('C10.condition', 'condition/raised', f'condition_covariance raised {type(e).__name__}: {str(e)[:100]}')
        return
    ref = np.empty_like(before)
    for idx in np.ndindex(*lead):
        ref[idx] = (before[idx] + gamma * np.trace(before[idx]) / D * np.eye(D)) / (1 + gamma)
    scale = float(np.abs(ref).max()) + 1e-300
    dv = float(np.abs(got - ref).max())
    R.check('C10.condition', got.shape == ref.shape and dv <= 1e-12 * scale, 'condition/value', f'condition_covariance deviates from (Phi + gamma tr(Phi)/D I)/(1+gamma) by {dv:.3e}', lead=list(lead), D=D)
    tr = float(np.abs(np.trace(got, axis1=-2, axis2=-1) - np.trace(before, axis1=-2, axis2=-1)).max())
    R.check('C10.condition', tr <= 1e-12 * scale * D, 'condition/trace', f'trace changed by {tr:.3e}')
    ev = np.linalg.eigvalsh(got)
    R.check('C10.condition', bool((ev.min(-1) >= -1e-12 * scale).all()), 'condition/psd', f'result has eigenvalue {ev.min():.3e}')
    R.check('C10.purity', np.array_equal(P, before), 'purity/condition-arguments-modified', 'condition_covariance modified its argument')
    if lead or r < D:
        R.mark_nontrivial('cond', list(lead), D, r)


def post_verdict(M, tier):
    need = ['branch: no mask', 'branch: source axis rolled to the front (source_dim < -2)']
    need += [f'branch: mask={a} {b} source axis' for a in ('float', 'bool', 'zero') for b in ('with', 'without')]
    return [f'workload never drove "{k}"' for k in need if M['counters'].get(k, 0) == 0]

"""C11 - MVDR, LCMV and Wiener beamformers satisfy their constraints and optimality."""
import numpy as np

from vmon import gen, instr

from vmon.scale import S

ID = 'C11'
RULE = ('cases = random steering vectors and Hermitian positive definite PSDs (condition number up to 1e6, D 2..8, F 1..32, K 1..3): '
        'get_mvdr_vector (distortionless + no distortionless competitor has less noise power, single bins and stacks), get_lcmv_vector '
        '(all constraints), Souden MVDR / WMWF on rank-one targets against closed forms, scaling invariances, mu = 0, automatic reference '
        'channel against the recomputed criterion; non-trivial = F > 1 or stacked sources, condition number > 10; distinct by (lane, D, F, K, cond decade)')
REACH_REQUIRED = {'automatic reference channel': ('extraction/beamformer.py', r'return np\.argmax\(SNR\.real\)')}
DECIDING = ['C11.mvdr', 'C11.lcmv', 'C11.souden', 'C11.wmwf', 'C11.refchannel']
MIN_DECIDED = {'quick': 300, 'thorough': 3000}
ARM = ()
ASSUMPTIONS = ['numpy.linalg.solve / inv on the generated well-posed problems are the reference']


def plan(tier, seed):
    rng = np.random.default_rng([seed, 111])
    n = S(tier, 120, 1200)
    cases = []
    i = 0
    for lane in ('mvdr', 'lcmv', 'souden', 'wmwf', 'ref'):
        for r in range(n):
            cases.append(dict(lane=lane, D=int(rng.integers(2, 9)), F=int(rng.integers(1, 33)), K=int(rng.integers(1, 4)),
                              cond=float(10 ** rng.uniform(0, 6)), stack=int(rng.integers(0, 3)), mu=float(rng.choice([0.0, 10 ** rng.uniform(-3, 2)])),
                              rs=[seed, 11, i]))
            i += 1
    return cases


def run_case(case, R):
    with instr.fp_guard():
        globals()['run_' + case['lane']](case, R)


def quad(w, P):
    return np.einsum('...a,...ab,...b->...', w.conj(), P, w).real


def run_mvdr(case, R):
    from pb_bss.extraction import get_mvdr_vector
    rng = gen.rng_of(case)
    D, F, K = case['D'], case['F'], case['K']
    Pn = gen.hpd(rng, D, cond=case['cond'], lead=(F,), scale=float(10 ** rng.uniform(-3, 3)))
    lead = [(), (K,), (2, K)][case['stack']]
    a = gen.cnormal(rng, (*lead, F, D))
    info = dict(D=D, F=F, lead=list(lead), cond=case['cond'])
    if case['rs'][-1] % 3 == 0:
        # block-online use: the caller keeps ONE noise PSD array and updates it in place between calls (recursive smoothing); the
        # call judged below is the second one on the same objects - "for any noise PSD" means the one the array holds now
        old = gen.hpd(rng, D, cond=case['cond'], lead=(F,), scale=float(10 ** rng.uniform(-3, 3)))
        new, Pn = Pn, old
        try:
            get_mvdr_vector(a, Pn)
        except Exception as e:
            if not instr.is_library_exception(e):
                raise
        Pn *= 0.7; Pn += 0.3 * new
        info['history'] = 'same PSD object updated in place'
    try:
        w = get_mvdr_vector(a, Pn)
    except Exception as e:
        if not instr.is_library_exception(e):
            raise
        R.fail('C11.mvdr', f'mvdr/raised/{"stack" if lead else "bins"}', f'get_mvdr_vector raised {type(e).__name__} for atf {a.shape}, psd {Pn.shape}: {str(e)[:100]}', **info)
        return
    if w.shape != a.shape or not np.isfinite(w).all():
        R.fail('C11.mvdr', 'mvdr/shape', f'result shape {w.shape} (atf {a.shape}) or non-finite', **info)
        return
    tol = 64 * np.finfo(float).eps * case['cond'] + 1e-12
    resp = np.einsum('...d,...d->...', w.conj(), a)
    dv = float(np.abs(resp - 1).max())
    R.check('C11.mvdr', dv <= tol, 'mvdr/distortionless', f'w^H a deviates from 1 by {dv:.3e} (tol {tol:.1e})', dev=dv, **info)
    # reference: Phi^-1 a / (a^H Phi^-1 a)
    Pi = np.linalg.inv(Pn)
    num = np.einsum('fab,...fb->...fa', Pi, a)
    ref = num / np.einsum('...fa,...fa->...f', a.conj(), num)[..., None]
    rv = float(np.abs(w - ref).max() / np.abs(ref).max())
    R.check('C11.mvdr', rv <= tol * 10, 'mvdr/value', f'MVDR vector deviates from Phi^-1 a / (a^H Phi^-1 a) by {rv:.3e} (relative)', dev=rv, **info)
    # optimality: competitors v = w + (u - a (a^H u)/(a^H a)) stay distortionless
    base = quad(w, Pn)
    worst = 0.0
    for sc in (1e-3, 1e-1, 1.0, 10.0):
        for _ in range(5):
            u = gen.cnormal(rng, a.shape) * sc * np.linalg.norm(w, axis=-1, keepdims=True)
            u = u - a * (np.einsum('...d,...d->...', a.conj(), u) / np.einsum('...d,...d->...', a.conj(), a))[..., None]
            v = w + u
            worst = max(worst, float(((base - quad(v, Pn)) / base).max()))
    R.check('C11.mvdr', worst <= tol * 10, 'mvdr/optimality', f'a distortionless competitor has {worst:.3e} (relative) less noise output power', dev=worst, **info)
    if F > 1 or lead:
        R.mark_nontrivial('mvdr', D, min(F, 2), list(lead), int(np.log10(case['cond'])))
    R.sample(dict(lane='mvdr', **info, distortionless_dev=dv))


def run_lcmv(case, R):
    from pb_bss.extraction import get_lcmv_vector
    rng = gen.rng_of(case)
    D, F = case['D'], case['F']
    K = min(case['K'], D)                 # as many constraints as sensors is still solvable (K == D: the constraints alone fix w)
    cond = min(case['cond'], 1e4)
    Pn = gen.hpd(rng, D, cond=cond, lead=(F,), real=(case['rs'][-1] % 4 == 0))
    A = gen.cnormal(rng, (K, F, D))
    dyadic = bool(rng.integers(0, 2))
    r = rng.choice([0.0, 0.5, 1.0, 2.0, -1.0], size=K) if dyadic else rng.uniform(-2, 2, size=K)
    if rng.uniform() < 0.4:
        r = np.eye(K)[int(rng.integers(K))]
    info = dict(D=D, F=F, K=K, cond=cond, response=r.tolist())
    try:
        w = get_lcmv_vector(A, list(r) if rng.uniform() < 0.5 else r, Pn)
    except Exception as e:
        if not instr.is_library_exception(e):
            raise
        R.fail('C11.lcmv', 'lcmv/raised', f'get_lcmv_vector raised {type(e).__name__}: {str(e)[:100]}', **info)
        return
    if w.shape != (F, D) or not np.isfinite(w).all():
        R.fail('C11.lcmv', 'lcmv/shape', f'shape {w.shape}', **info)
        return
    resp = np.einsum('fd,kfd->kf', w.conj(), A)
    G = np.einsum('kfd,fde,jfe->fkj', A.conj(), np.linalg.inv(Pn), A)
    kap = float(np.linalg.cond(G).max())
    dv = float(np.abs(resp - r[:, None]).max())
    tol = (1e-6 if not dyadic else 1e-10) * kap * 10 + 1e-10
    R.check('C11.lcmv', dv <= tol, 'lcmv/constraints', f'w^H a_k deviates from the response by {dv:.3e} (tol {tol:.1e})', dev=dv, **info)
    if K > 1 or F > 1:
        R.mark_nontrivial('lcmv', D, K, min(F, 2), dyadic)


def rank1(rng, D, F, lead=()):
    a = gen.cnormal(rng, (*lead, F, D))
    sig = 10 ** rng.uniform(-2, 2, size=(*lead, F))
    return a, sig, sig[..., None, None] * np.einsum('...a,...b->...ab', a, a.conj())


def noise_psd(rng, case, D, lead):
    """Hermitian positive definite noise PSD; every fourth case real-valued with a real dtype (white / diagonal / real covariance)"""
    if case['rs'][-1] % 4 == 0:
        return np.ascontiguousarray(gen.hpd(rng, D, cond=min(case['cond'], 1e4), lead=lead, real=True)), True
    return gen.hpd(rng, D, cond=case['cond'], lead=lead), False


def run_souden(case, R):
    from pb_bss.extraction import get_mvdr_vector_souden
    rng = gen.rng_of(case)
    D, F = case['D'], case['F']
    lead = [(), (2,), (2, 2)][case['stack']]
    a, sig, Px = rank1(rng, D, F, lead)
    Pn, real_noise = noise_psd(rng, case, D, (*lead, F))
    ref = int(rng.integers(0, D))
    ref_arg = ref - D if case['rs'][-1] % 4 == 1 else ref          # a reference channel counted from the end (NumPy style) names the same channel
    info = dict(D=D, F=F, lead=list(lead), cond=case['cond'], ref=ref, real_noise=real_noise)
    try:
        w = get_mvdr_vector_souden(Px, Pn, ref_channel=ref_arg)
    except Exception as e:
        if not instr.is_library_exception(e):
            raise
        R.fail('C11.souden', 'souden/raised', f'{type(e).__name__}: {str(e)[:100]}', **info)
        return
    tol = 64 * np.finfo(float).eps * case['cond'] * 10 + 1e-12
    resp = np.einsum('...d,...d->...', w.conj(), a)
    dv = float((np.abs(resp - a[..., ref]) / np.abs(a[..., ref])).max())
    R.check('C11.souden', dv <= tol, 'souden/reference-response', f'w^H a deviates from a_ref by {dv:.3e} (relative)', dev=dv, **info)
    Pi = np.linalg.inv(Pn)
    num = np.einsum('...ab,...b->...a', Pi, a)
    mv = num / np.einsum('...a,...a->...', a.conj(), num)[..., None] * a[..., ref].conj()[..., None]
    rv = float(np.abs(w - mv).max() / np.abs(mv).max())
    R.check('C11.souden', rv <= tol, 'souden/equals-scaled-mvdr', f'Souden MVDR deviates from the MVDR vector scaled to the reference channel by {rv:.3e}', dev=rv, **info)
    c1, c2 = 10 ** rng.uniform(-3, 3, size=2)
    w2 = get_mvdr_vector_souden(Px * c1, Pn * c2, ref_channel=ref_arg)
    sv = float(np.abs(w2 - w).max() / np.abs(w).max())
    R.check('C11.souden', sv <= tol, 'souden/scale-invariance', f'Souden MVDR changes by {sv:.3e} under positive scaling of the PSDs', dev=sv, **info)
    R.mark_nontrivial('souden', D, min(F, 2), list(lead), int(np.log10(case['cond'])))


def run_wmwf(case, R):
    from pb_bss.extraction import get_wmwf_vector, get_mvdr_vector_souden
    rng = gen.rng_of(case)
    D, F, mu = case['D'], case['F'], case['mu']
    lead = [(), (2,), (2, 2)][case['stack']]
    a, sig, Px = rank1(rng, D, F, lead)
    Pn, real_noise = noise_psd(rng, case, D, (*lead, F))
    ref = int(rng.integers(0, D))
    ref_arg = ref - D if case['rs'][-1] % 4 == 1 else ref          # a reference channel counted from the end (NumPy style) names the same channel
    if case['rs'][-1] % 3 == 0 and mu > 0:
        mu = int(max(1, round(mu)))            # integer-typed distortion weights (0, 1, 100 ...) are valid numbers too
    info = dict(D=D, F=F, lead=list(lead), cond=case['cond'], ref=ref, mu=mu, mu_type=type(mu).__name__, real_noise=real_noise)
    try:
        w = get_wmwf_vector(Px, Pn, reference_channel=ref_arg, distortion_weight=mu)
    except Exception as e:
        if not instr.is_library_exception(e):
            raise
        R.fail('C11.wmwf', 'wmwf/raised', f'{type(e).__name__}: {str(e)[:100]}', **info)
        return
    tol = 64 * np.finfo(float).eps * case['cond'] * 100 + 1e-11
    if mu > 0:
        exact = np.linalg.solve(Px + mu * Pn, Px)[..., ref]
        rv = float(np.abs(w - exact).max() / np.abs(exact).max())
        kap = float(np.linalg.cond(Px + mu * Pn).max())       # the reference solve has its own conditioning
        R.check('C11.wmwf', rv <= tol + 1e3 * np.finfo(float).eps * kap, 'wmwf/exact-minimiser', f'WMWF deviates from (Phi_xx + mu Phi_nn)^-1 Phi_xx e_ref by {rv:.3e}', dev=rv, **info)
    else:
        s = get_mvdr_vector_souden(Px, Pn, ref_channel=ref_arg)
        rv = float(np.abs(w - s).max() / np.abs(s).max())
        R.check('C11.wmwf', rv <= tol, 'wmwf/mu-zero-is-souden', f'WMWF(mu=0) deviates from Souden MVDR by {rv:.3e}', dev=rv, **info)
    # channel_selection_vector: a one-hot selection is the explicit reference channel
    try:
        sel = np.zeros((*lead, F, D)); sel[..., ref] = 1.0          # one selection vector per (leading index, bin)
        w_sel = np.asarray(get_wmwf_vector(Px, Pn, channel_selection_vector=sel, distortion_weight=mu))
        dsel = float(np.abs(w_sel - w).max() / np.abs(w).max()) if w_sel.shape == w.shape else np.inf
        R.check('C11.wmwf', dsel <= tol, 'wmwf/channel-selection-vector', f'one-hot channel_selection_vector differs from reference_channel={ref} by {dsel:.3e}', dev=dsel, **info)
    except Exception as e:
        if not instr.is_library_exception(e):
            raise
        R.count(f'channel_selection_vector raised {type(e).__name__}')
    c = float(10 ** rng.uniform(-3, 3))
    w2 = get_wmwf_vector(Px * c, Pn * c, reference_channel=ref_arg, distortion_weight=mu)
    sv = float(np.abs(w2 - w).max() / np.abs(w).max())
    R.check('C11.wmwf', sv <= tol, 'wmwf/joint-scale-invariance', f'WMWF changes by {sv:.3e} under joint scaling of both PSDs', dev=sv, **info)
    R.mark_nontrivial('wmwf', D, min(F, 2), list(lead), mu > 0)


def run_ref(case, R):
    from pb_bss.extraction import get_wmwf_vector, get_mvdr_vector_souden
    rng = gen.rng_of(case)
    D, F, mu = case['D'], case['F'], case['mu']
    full = bool(rng.integers(0, 2))
    if full:
        Px = gen.hpd(rng, D, cond=100.0, lead=(F,))
    else:
        _, _, Px = rank1(rng, D, F)
    Pn = gen.hpd(rng, D, cond=min(case['cond'], 1e4), lead=(F,))
    which = 'souden' if rng.integers(0, 2) else 'wmwf'
    info = dict(D=D, F=F, which=which, mu=mu, full_rank_target=full)
    try:
        if which == 'souden':
            w, chosen = get_mvdr_vector_souden(Px, Pn, return_ref_channel=True)
            cand = [get_mvdr_vector_souden(Px, Pn, ref_channel=r) for r in range(D)]
        else:
            w = get_wmwf_vector(Px, Pn, distortion_weight=mu)
            cand = [get_wmwf_vector(Px, Pn, reference_channel=r, distortion_weight=mu) for r in range(D)]
            chosen = None
    except Exception as e:
        if not instr.is_library_exception(e):
            raise
        R.fail('C11.refchannel', f'ref/raised/{which}', f'{type(e).__name__}: {str(e)[:100]}', **info)
        return
    snr = np.array([quad(c, Px).sum() / max(quad(c, Pn).sum(), np.finfo(float).tiny) for c in cand])
    order = np.argsort(snr)
    best = int(order[-1])
    gap = (snr[order[-1]] - snr[order[-2]]) / abs(snr[order[-1]]) if D > 1 else 1.0
    if gap < 1e-9:
        R.undecided('C11.refchannel', 'near-tie between reference channels')
        return
    # joint positive scaling of both PSDs must not change the choice (scales down to 1e-20: the criterion's noise floor is `tiny`)
    if which == 'wmwf':
        cs = float(10 ** rng.uniform(-20, 20))
        try:
            w_s = get_wmwf_vector(Px * cs, Pn * cs, distortion_weight=mu)
            dvs = float(np.abs(w_s - w).max() / np.abs(w).max())
            R.check('C11.refchannel', dvs <= 1e-9, 'ref/wmwf/joint-scale-changes-choice', f'WMWF with automatic reference changes by {dvs:.3e} under joint scaling of both PSDs by {cs:.1e}', scale=cs, **info)
        except Exception as e:
            if not instr.is_library_exception(e):
                raise
            R.fail('C11.refchannel', 'ref/raised/wmwf-scaled', f'{type(e).__name__}: {str(e)[:100]}', **info)
    if chosen is not None:
        R.check('C11.refchannel', int(chosen) == best, f'ref/{which}/not-argmax', f'automatic reference channel {chosen} does not maximise the output SNR criterion (best {best})', snr=snr, **info)
    R.check('C11.refchannel', np.allclose(w, cand[best], rtol=1e-12, atol=0), f'ref/{which}/vector', 'vector returned with automatic reference is not the vector of the criterion-maximising channel', **info)
    R.mark_nontrivial('ref', which, D, min(F, 2), full)

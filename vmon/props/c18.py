"""C18 - oracle masks satisfy their defining identities in every axis layout."""
import itertools

import numpy as np

from vmon import gen, instr

from vmon.scale import S

ID = 'C18'
RULE = ('cases = complex source tensors with 1..4 axes (sizes 1..6, F/T up to 40), every valid (source_axis, sensor_axis) pair, keepdims on/off, '
        'tied powers, silent points and all-zero inputs: each mask function against its definition evaluated by explicit loops in the canonical '
        'layout (source axis first), the result moved to the requested layout; quantile / Lorenz masks against the monitors own linear-'
        'interpolation quantile / cumulative-share threshold over single axes and axis tuples up to all axes; non-trivial = non-default axis '
        'layout or ties/zeros present; distinct by (mask, ndim, axes, keepdims, content class)')
DECIDING = ['C18.ibm', 'C18.wiener', 'C18.ratio', 'C18.complex', 'C18.psm', 'C18.quantile', 'C18.lorenz', 'C18.zeros']
MIN_DECIDED = {'quick': 400, 'thorough': 4000}
ARM = ()
ASSUMPTIONS = ['numpy.percentile (linear interpolation) is not used by the reference: the quantile is interpolated by hand on the sorted values']
FUNS = ['ibm', 'wiener', 'ratio', 'amplitude', 'complex', 'psm', 'quantile', 'lorenz']


def plan(tier, seed):
    rng = np.random.default_rng([seed, 118])
    pick = lambda xs: xs[int(rng.integers(len(xs)))]
    n = S(tier, 110, 1100)
    cases, i = [], 0
    for fun in FUNS:
        for r in range(n):
            nd = int(rng.integers(1, 5))
            shape = [int(rng.integers(1, 7)) for _ in range(nd)]
            if (nd >= 2 and rng.uniform() < 0.3) or (fun in ('quantile', 'lorenz') and rng.uniform() < 0.8):
                shape[-1] = int(rng.integers(8, 41))
            cases.append(dict(fun=fun, shape=shape, content=(pick(['random', 'random', 'ties', 'silent', 'zeros', 'huge', 'tiny', 'tiny']) if not (fun in ('ratio', 'amplitude') and rng.uniform() < 0.12) else 'huge-amplitude') if not (fun == 'lorenz' and rng.uniform() < 0.15) else 'dyadic', keepdims=bool(rng.integers(0, 2)),
                              use_sensor=bool(rng.integers(0, 2)), rs=[seed, 18, i]))
            i += 1
    return cases


def make(rng, shape, content):
    x = gen.cnormal(rng, shape)
    if content == 'ties':
        x = (rng.integers(0, 3, size=shape) + 1j * rng.integers(0, 2, size=shape)).astype(complex)
    elif content == 'silent':
        x[rng.uniform(size=shape) < 0.3] = 0
        if x.ndim >= 2:
            x[..., 0] = 0
    elif content == 'zeros':
        x = np.zeros(shape, dtype=complex)
    elif content == 'huge':
        x = x * 10 ** rng.uniform(-100, 100)
    elif content == 'huge-amplitude':
        # magnitudes whose SQUARES leave the double range: still finite inputs for the masks that are defined through amplitudes
        x = x * 10 ** (rng.choice([-1, 1]) * rng.uniform(155, 300))
    elif content == 'tiny':
        x = x * 10 ** rng.uniform(-9, -5)              # low-level time-frequency points (eps guards become visible)
    return x


def run_case(case, R):
    with instr.fp_guard():
        globals()['run_' + ('sourcemask' if case['fun'] in ('ibm', 'wiener', 'ratio', 'amplitude', 'complex', 'psm') else case['fun'])](case, R)


# ---------------------------------------------------------------------------

def ref_sourcemask(fun, X, eps=1e-18):
    """X canonical: (K, [D,] rest...) ; sensor axis 1 if has_sensor handled by caller (X already pooled or not)."""
    K = X.shape[0]
    out = np.zeros(X.shape, dtype=complex if fun == 'complex' else float)
    for idx in np.ndindex(*X.shape[1:]):
        col = X[(slice(None), *idx)]
        if fun == 'ratio':
            a = np.abs(col)
            out[(slice(None), *idx)] = a / (a.sum() + eps)
        elif fun == 'amplitude':
            out[(slice(None), *idx)] = np.abs(col) / (abs(col.sum()) + eps)
        elif fun == 'complex':
            with np.errstate(all='ignore'):
                out[(slice(None), *idx)] = col / col.sum()
        elif fun == 'psm':
            s = col.sum()
            out[(slice(None), *idx)] = np.abs(col) / (abs(s) + eps) * np.cos(np.angle(col) - np.angle(s))
    return out


def run_sourcemask(case, R):
    from pb_bss.extraction import mask_module as mm
    rng = gen.rng_of(case)
    fun = case['fun']
    shape = list(case['shape'])
    nd = len(shape)
    can_sensor = fun in ('ibm', 'wiener') and nd >= 2 and case['use_sensor']
    src = int(rng.integers(0, nd))
    sen = None
    if can_sensor:
        sen = int(rng.choice([a for a in range(nd) if a != src]))
    X = make(rng, shape, case['content'])
    Xb = X.copy()
    K = shape[src]
    f = dict(ibm=mm.ideal_binary_mask, wiener=mm.wiener_like_mask, ratio=mm.ideal_ratio_mask, amplitude=mm.ideal_amplitude_mask,
             complex=mm.ideal_complex_mask, psm=mm.phase_sensitive_mask)[fun]
    kw = dict(source_axis=src if rng.uniform() < 0.5 else src - nd)
    if sen is not None:
        kw['sensor_axis'] = sen if rng.uniform() < 0.5 else sen - nd
        kw['keepdims'] = case['keepdims']
    mon = {'amplitude': 'C18.ratio'}.get(fun, 'C18.' + fun)
    info = dict(fun=fun, shape=shape, content=case['content'], kwargs=kw)
    try:
        with np.errstate(all='ignore'):
            got = np.asarray(f(X, **kw))
    except Exception as e:
        if not instr.is_library_exception(e):
            raise
        R.fail(mon, f'{fun}/raised', f'{fun} mask raised {type(e).__name__}: {str(e)[:100]}', **info)
        return
    R.check(mon, np.array_equal(X, Xb), f'{fun}/purity', 'input modified', **info)
    # canonical computation: move source axis to 0, sensor axis (if any) to 1
    rest = [a for a in range(nd) if a not in (src, sen)]
    order = [src] + ([sen] if sen is not None else []) + rest
    Xc = np.transpose(X, order)
    P = Xc.real ** 2 + Xc.imag ** 2          # power, without the square root of abs()
    if sen is not None:
        Pp = P.sum(axis=1)                               # pooled over sensors: (K, rest...)
    else:
        Pp = P
    if fun == 'ibm':
        ref = np.zeros(Pp.shape)
        for idx in np.ndindex(*Pp.shape[1:]):
            col = Pp[(slice(None), *idx)]
            k = 0
            for j in range(1, K):
                if col[j] > col[k]:
                    k = j                                  # first arg-max
            ref[(k, *idx)] = 1.0
    elif fun == 'wiener':
        ref = np.zeros(Pp.shape)
        for idx in np.ndindex(*Pp.shape[1:]):
            col = Pp[(slice(None), *idx)]
            with np.errstate(all='ignore'):
                ref[(slice(None), *idx)] = col / (col.sum() + 1e-18)
    else:
        ref = ref_sourcemask(fun, Xc)
    # expected layout: output axes = input axes (sensor axis removed, or kept with size one)
    if sen is not None:
        if case['keepdims']:
            refl = np.expand_dims(ref, 1)                 # (K, 1, rest)
            exp = np.transpose(refl, np.argsort(order))
        else:
            out_axes = [a for a in range(nd) if a != sen]
            cur = [src] + rest
            exp = np.transpose(ref, [cur.index(a) for a in out_axes])
    else:
        exp = np.transpose(ref, np.argsort(order))
    if got.shape != exp.shape:
        R.fail(mon, f'{fun}/shape', f'{fun} mask shape {got.shape} != expected {exp.shape} (input {X.shape})', **info)
        return
    fin_exp = np.isfinite(exp)
    if fun == 'ibm' and case['content'] == 'huge' and not np.isfinite(P).all():
        R.undecided(mon, 'power overflows')
        return
    scale = 1.0
    with np.errstate(all='ignore'):
        dv = float((np.abs(got[fin_exp] - exp[fin_exp]) / (1 + np.abs(exp[fin_exp]))).max()) if fin_exp.any() else 0.0
        same_nan = bool(np.array_equal(np.isfinite(got), fin_exp))
    tol = 1e-12 if fun != 'ibm' else 0.0
    R.check(mon, dv <= tol and same_nan, f'{fun}/value', f'{fun} mask deviates from its definition by {dv:.3e} (finite pattern equal: {same_nan})', dev=dv, **info)
    # defining identities (evaluated in the canonical layout: source axis first, sensor axis pooled away) ----------
    if sen is None:
        got_c = np.transpose(got, order)
    elif case['keepdims']:
        got_c = np.squeeze(np.transpose(got, order), 1)
    else:
        out_axes = [a for a in range(nd) if a != sen]
        cur = [src] + rest
        got_c = np.transpose(got, [out_axes.index(a) for a in cur])
    if fun == 'ibm':
        R.check(mon, bool(np.isin(got_c, (0.0, 1.0)).all() and (got_c.sum(axis=0) == 1).all()), 'ibm/one-hot', 'binary mask is not one-hot along the source axis', **info)
    if fun in ('wiener', 'ratio'):
        tot = got_c.sum(axis=0)
        R.check(mon, bool((got_c >= 0).all() and (got_c <= 1 + 1e-15).all()), f'{fun}/range', 'mask outside [0, 1]', **info)
        pw = Pp.sum(axis=0) if fun == 'wiener' else np.abs(Xc).sum(axis=0)
        if np.isfinite(pw).all() and pw.size and pw.max() > 0:
            has = pw > (1e-6 if fun == 'ratio' else 1e-12) * pw.max()
            has &= pw > 1e-6          # the eps guard (1e-18) must be negligible against the mixture power
            if has.any():
                R.check(mon, float(np.abs(tot[has] - 1).max()) <= 1e-9, f'{fun}/sum-to-one', f'masks do not sum to one where the mixture has power (dev {float(np.abs(tot[has] - 1).max()):.2e})', **info)
    if fun == 'complex':
        mix = X.sum(axis=src, keepdims=True)
        with np.errstate(all='ignore'):
            rec = got * mix
        ok = np.abs(mix) > 1e-9 * (np.abs(X).max() + 1e-300)
        okb = np.broadcast_to(ok, X.shape)
        if okb.any():
            dvr = float((np.abs(rec - X)[okb] / (np.abs(X).max())).max())
            R.check(mon, dvr <= 1e-9, 'complex/reconstruction', f'ICM times the mixture does not reproduce the sources ({dvr:.2e})', **info)
    if fun == 'psm':
        with np.errstate(all='ignore'):
            icm = np.asarray(mm.ideal_complex_mask(X, source_axis=src))
        mix = np.broadcast_to(np.abs(X.sum(axis=src, keepdims=True)), X.shape)
        ok = mix > 1e-6 * (np.abs(X).max() + 1e-300)
        if ok.any() and case['content'] != 'huge':
            # "up to the eps guard": |s|/(|y| + eps) cos(theta) = Re(ICM) |y| / (|y| + eps) with eps = 1e-18
            target = icm.real * mix / (mix + 1e-18)
            dvp = float((np.abs(got - target) / (1 + np.abs(target)))[ok].max())
            R.check(mon, dvp <= 1e-12, 'psm/real-part-of-icm', f'PSM deviates from Re(ICM) |y|/(|y|+eps) by {dvp:.2e}', **info)
    if case['content'] == 'zeros' and fun in ('wiener', 'ratio', 'amplitude', 'psm', 'ibm'):
        R.check('C18.zeros', bool(np.isfinite(got).all()), f'{fun}/zeros-nonfinite', 'all-zero input gives a non-finite mask', **info)
    if src != 0 or sen is not None or case['content'] in ('ties', 'silent', 'zeros'):
        R.mark_nontrivial(fun, nd, src, sen, case['keepdims'] if sen is not None else None, case['content'])
    R.sample(info)


# ---------------------------------------------------------------------------

def own_quantile(v, q):
    """q in [0, 1]; linear interpolation between order statistics (the documented default of the percentile)."""
    s = sorted(float(a) for a in v)
    n = len(s)
    pos = q * (n - 1)
    lo = int(np.floor(pos))
    hi = min(lo + 1, n - 1)
    fr = pos - lo
    return s[lo] + (s[hi] - s[lo]) * fr


def run_quantile(case, R):
    from pb_bss.extraction import mask_module as mm
    rng = gen.rng_of(case)
    shape = list(case['shape'])
    nd = len(shape)
    X = make(rng, shape, case['content'] if case['content'] not in ('huge', 'tiny') else 'random')
    if case['rs'][-1] % 3 == 0:
        shape[-1] = int(rng.choice([5, 9, 13, 17, 21]))      # n - 1 divisible by 4: for dyadic q a point equals the threshold exactly (all arithmetic exact)
        X = make(rng, shape, case['content'] if case['content'] not in ('huge', 'tiny') else 'random')
    k = int(rng.integers(1, nd + 1))
    axes = sorted(rng.choice(nd, size=k, replace=False).tolist())
    if case['rs'][-1] % 3 == 0:
        axes = [nd - 1]; k = 1
    npts = int(np.prod([shape[a] for a in axes]))
    q = float(rng.choice([0.1, 0.25, 0.5, 0.9, -0.1, -0.5, -0.9, 0.0, 1.0, -1.0])) if rng.uniform() < 0.7 else float(rng.uniform(-1, 1))
    if case['rs'][-1] % 3 == 0:
        q = float(rng.choice([0.5, -0.5, 0.25, -0.25, 0.75, -0.75]))
    dyadic = (abs(q) * 8) == int(abs(q) * 8)
    w = float(rng.choice([0.999, 1.0, 0.5]))
    axis_arg = axes[0] if (k == 1 and rng.uniform() < 0.5) else (tuple(axes) if rng.uniform() < 0.5 else [a - nd for a in axes])
    info = dict(fun='quantile', shape=shape, axis=axis_arg if not isinstance(axis_arg, tuple) else list(axis_arg), q=q, weight=w, content=case['content'], all_axes=(k == nd))
    Xb = X.copy()
    try:
        got = np.asarray(mm.quantile_mask(X, quantile=q, axis=axis_arg, weight=w))
    except Exception as e:
        if not instr.is_library_exception(e):
            raise
        R.fail('C18.quantile', 'quantile/raised/' + ('all-axes' if k == nd else 'some-axes'), f'quantile_mask raised {type(e).__name__} for axis={axis_arg} on shape {shape}: {str(e)[:100]}', **info)
        return
    R.check('C18.quantile', np.array_equal(X, Xb), 'quantile/purity', 'input modified', **info)
    A = np.abs(X)
    other = [a for a in range(nd) if a not in axes]
    ref = np.empty(shape)
    near = False
    for idx in np.ndindex(*[shape[a] for a in other]):
        sl = [slice(None)] * nd
        for a, i_ in zip(other, idx):
            sl[a] = i_
        vals = A[tuple(sl)].ravel()
        thr = own_quantile(vals, (1 - q) if q >= 0 else abs(q))
        hi = (vals > thr) if q >= 0 else (vals < thr)
        if np.any(np.abs(vals - thr) <= 1e-12 * (abs(thr) + 1e-300)) and not (dyadic and np.any(vals == thr)):
            # the interpolated threshold coincides with a point only up to rounding (q (n-1) within rounding of an integer for a
            # q that is not a dyadic rational): which side that point falls on is decided by the last bit of q * 100 / 100
            near = True
        ref[tuple(sl)] = np.where(hi, 0.5 + w / 2, 0.5 - w / 2).reshape(A[tuple(sl)].shape)
    if near:
        R.undecided('C18.quantile', 'value within rounding of the interpolated threshold')
        return
    ok = got.shape == ref.shape and float(np.abs(got - ref).max()) <= 1e-12
    R.check('C18.quantile', ok, 'quantile/value', f'quantile mask differs from the definition at {int((np.abs(got - ref) > 1e-12).sum()) if got.shape == ref.shape else "shape"} points (n={npts})', **info)
    lv = np.unique(np.round(got, 12))
    R.check('C18.quantile', set(lv.tolist()) <= {round(0.5 + w / 2, 12), round(0.5 - w / 2, 12)}, 'quantile/levels', f'levels {lv.tolist()[:4]} are not 0.5 +/- weight/2', **info)
    # a tuple / list of quantiles (the default is a pair) stacks the masks of its members, with the same levels and options
    q2 = float(rng.choice([0.1, -0.9, 0.5, -0.25]))
    qs = (q, q2) if rng.uniform() < 0.5 else [q2, q]
    try:
        both = np.asarray(mm.quantile_mask(X, quantile=qs, axis=axis_arg, weight=w))
        single = [np.asarray(mm.quantile_mask(X, quantile=qq, axis=axis_arg, weight=w)) for qq in qs]
        okq = both.shape == (2, *got.shape) and all(np.array_equal(both[i], single[i]) for i in range(2))
        R.check('C18.quantile', okq, 'quantile/tuple', f'quantile_mask(quantile={qs}, weight={w}) is not the stack of the masks of its members (shape {both.shape})', **info)
    except Exception as e:
        if not instr.is_library_exception(e):
            raise
        R.fail('C18.quantile', 'quantile/raised/tuple', f'quantile_mask raised {type(e).__name__} for quantile={qs}: {str(e)[:100]}', **info)
    if npts >= 8:
        R.mark_nontrivial('quantile', nd, k == nd, q >= 0, case['content'])
    R.sample(info)


def run_lorenz(case, R):
    from pb_bss.extraction import mask_module as mm
    rng = gen.rng_of(case)
    shape = list(case['shape'])
    nd = len(shape)
    X = make(rng, shape, case['content'] if case['content'] not in ('huge', 'zeros', 'tiny') else 'random')
    k = int(rng.integers(1, min(nd, 2) + 1))
    axes = sorted(rng.choice(nd, size=k, replace=False).tolist())
    sen = None
    remaining = [a for a in range(nd) if a not in axes]
    if remaining and case['use_sensor']:
        sen = int(rng.choice(remaining))
    frac = float(rng.choice([0.98, 0.9, 0.5, 0.3]))
    w = float(rng.choice([0.999, 1.0, 0.6]))
    dyadic = case['content'] == 'dyadic'
    if dyadic:
        # pooled powers 2^-1, 2^-2, ..., 2^-(n-1), 2^-(n-1) (two sensors: even exponents on one, odd ones split over both) in random order:
        # total exactly one, every cumulative share and a dyadic fraction are exact binary numbers, so a share EQUAL to the fraction
        # exists and "stays below" (strict) is decided without rounding
        n = int(rng.integers(8, 21))
        j = np.concatenate([np.arange(1, n), [n - 1]])[rng.permutation(n)]
        amp = np.where(j % 2 == 0, 2.0 ** (-j // 2), 2.0 ** (-(j + 1) // 2))
        two = np.stack([amp, np.where(j % 2 == 0, 0.0, amp)])                     # (2, n)
        two = two * np.array([1, 1j, -1, -1j])[rng.integers(0, 4, size=two.shape)]   # phases that keep |.|^2 exact
        if rng.uniform() < 0.5:
            X, shape, axes, sen = two, [2, n], [0 + 1], 0
        else:
            X, shape, axes, sen = two.T.copy(), [n, 2], [0], 1
        nd, k, remaining = 2, 1, [sen]
        frac = float(rng.choice([0.75, 0.875, 0.9375]))
    kw = dict(axis=tuple(axes) if k > 1 or rng.uniform() < 0.5 else axes[0], lorenz_fraction=frac, weight=w)
    if sen is not None:
        kw.update(sensor_axis=sen, keepdims=case['keepdims'])
    info = dict(fun='lorenz', shape=shape, content=case['content'], kwargs={k_: (list(v) if isinstance(v, tuple) else v) for k_, v in kw.items()})
    P = np.abs(X) ** 2
    if sen is not None:
        P = P.sum(axis=sen, keepdims=True)
    other = [a for a in range(nd) if a not in axes]
    ref = np.empty(P.shape)
    for idx in np.ndindex(*[P.shape[a] for a in other]):
        sl = [slice(None)] * nd
        for a, i_ in zip(other, idx):
            sl[a] = i_
        vals = P[tuple(sl)].ravel()
        tot = vals.sum()
        if len(vals) < 8 or tot == 0 or vals.max() >= frac * tot:
            R.undecided('C18.lorenz', 'outside the stated domain (fewer than 8 points or a point carries the Lorenz fraction)')
            return
        srt = np.sort(vals)[::-1]
        share = np.cumsum(srt) / tot
        strongest = srt[share < frac]
        thr = strongest.min()
        if np.any((np.abs(share - frac) < 1e-12)) and not dyadic:
            R.undecided('C18.lorenz', 'cumulative share within rounding of the fraction')
            return
        ref[tuple(sl)] = np.where(vals > thr, 0.5 + w / 2, 0.5 - w / 2).reshape(P[tuple(sl)].shape)
    if sen is not None and not case['keepdims']:
        ref = np.squeeze(ref, sen)
    Xb = X.copy()
    try:
        got = np.asarray(mm.lorenz_mask(X, **kw))
    except Exception as e:
        if not instr.is_library_exception(e):
            raise
        R.fail('C18.lorenz', 'lorenz/raised', f'lorenz_mask raised {type(e).__name__}: {str(e)[:100]}', **info)
        return
    R.check('C18.lorenz', np.array_equal(X, Xb), 'lorenz/purity', 'input modified', **info)
    ok = got.shape == ref.shape and float(np.abs(got - ref).max()) <= 1e-12
    R.check('C18.lorenz', ok, 'lorenz/value', f'Lorenz mask differs from the definition (shape {got.shape} vs {ref.shape})', **info)
    R.mark_nontrivial('lorenz', nd, axes, sen, case['keepdims'] if sen is not None else None, frac)
    R.sample(info)

"""C17 - the documented pipeline separates a separable multi-channel scene."""
import numpy as np

from vmon import gen, instr
from vmon.props import c16

from vmon.scale import S

ID = 'C17'
RULE = ('cases = synthetic STFT scenes: K 2..3 sources with a frame-level activity partition shared by all bins (every source >= 15 % of the '
        'frames), random steering vectors per bin, random source spectra, sensor noise 40 dB below, D in K+1..8, F in {33, 65, 257}, T 60..200, a '
        'per-frequency permutation field with a 70 % majority in the first DHTV segment; chain: cACGMM / cWMM per frequency from the permuted '
        'blurred partition -> DHTV -> oracle global alignment -> mask-based PSDs -> get_bf_vector -> apply_beamforming_vector -> output_sxr; '
        'non-trivial = field not constant over frequency; distinct by (model, K, D, F, T bucket, beamformer set)')
DECIDING = ['C17.map-accuracy', 'C17.sir']
MIN_DECIDED = {'quick': 16, 'thorough': 300}
CASE_TIMEOUT = {'quick': 300, 'thorough': 900}
NEEDS_HOOK = True
ASSUMPTIONS = ['the C01 / C09 / C14 contracts stay armed during the pipeline and report under their own property ids']
BEAMFORMERS = ['mvdr_souden', 'gev', 'gev+ban', 'rank1_pca+mvdr_souden', 'rank1_gev+mvdr_souden', 'rank1_gev+mvdr_souden+ban', 'wmwf', 'rank1_pca+wmwf', 'rank1_gev+wmwf', 'rank1_pca+gev']


def plan(tier, seed):
    rng = np.random.default_rng([seed, 117])
    n = S(tier, 24, 420)
    cases = []
    for i in range(n):
        K = int(rng.integers(2, 4))
        F = int(rng.choice([33, 65, 257], p=[0.5, 0.35, 0.15] if tier == 'quick' else [0.4, 0.3, 0.3]))
        cases.append(dict(model=['cacgmm', 'cwmm'][i % 2], K=K, D=int(rng.integers(K + 1, 9)), F=F, T=int(rng.integers(60, 201)), blur=float(rng.choice([0.1, 0.2, 0.3])),
                          iters=int(rng.choice([10, 15])), level=float(rng.choice([1.0, 1.0, 1e-4, 1e3, 1e-8])), sub_iterations=int(rng.choice([2, 2, 1])), rs=[seed, 17, i]))
    return cases


def run_case(case, R):
    from pb_bss import distribution as d, permutation_alignment as pa
    from pb_bss.evaluation.sxr_module import output_sxr
    from pb_bss.extraction import apply_beamforming_vector, get_bf_vector, get_power_spectral_density_matrix
    rng = gen.rng_of(case)
    K, D, F, T = case['K'], case['D'], case['F'], case['T']
    # scene --------------------------------------------------------------------------------------------------------
    while True:
        owner = rng.integers(0, K, size=T)
        if all((owner == k).mean() >= 0.15 for k in range(K)):
            break
    A = gen.cnormal(rng, (F, K, D))
    # "arbitrary steering vectors" is read as generic ones: two sources whose steering vectors are nearly parallel in a bin
    # (|cos| > 0.9) cannot be told apart by a directional model whose concentration is capped (Watson: 500, i.e. 0.045 rad)
    for f in range(F):
        for _ in range(100):
            u = A[f] / np.linalg.norm(A[f], axis=-1, keepdims=True)
            G = np.abs(u @ u.conj().T) - np.eye(K)
            if G.max() <= 0.9:
                break
            A[f] = gen.cnormal(rng, (K, D))
    # the statement constrains relative levels only (noise 40 dB below the sources): the absolute level of the scene is free
    S = gen.cnormal(rng, (K, F, T)) * 10 ** rng.uniform(-0.3, 0.3, size=(K, F, 1)) * case.get('level', 1.0)
    act = (owner[None, :] == np.arange(K)[:, None])                    # (K, T)
    images = np.einsum('fkd,kft->kfdt', A, S * act[:, None, :])       # (K, F, D, T)
    sig_pow = float(np.mean(np.abs(images.sum(0)) ** 2))
    noise = gen.cnormal(rng, (F, D, T)) * np.sqrt(sig_pow) * 10 ** (-40 / 20)
    Y = images.sum(0) + noise                                          # (F, D, T)
    truth = np.broadcast_to(act[:, None, :], (K, F, T)).astype(float)
    # DHTV aligner inside the domain of C16 ----------------------------------------------------------------------------------
    metric = ['cos', 'cos', 'euclidean', 'multiply'][case['rs'][-1] % 4]
    if F == 257:
        al = pa.DHTVPermutationAlignment.from_stft_size(512, similarity_metric=metric)
    else:
        for _ in range(2000):
            width = int(rng.integers(max(6, F // 6), (3 * F) // 4 + 1)); start = int(rng.integers(0, F - width + 1)); shift = int(rng.integers(1, max(1, width // 3) + 1))
            if case['rs'][-1] % 3 == 0:
                start = int(rng.integers(max(0, F - width - shift + 1), F - width + 1))      # the first segment is the topmost one
            lo = None; ok = True
            for it, a, b in c16.own_plan(F, start, width, shift, 20, case.get('sub_iterations', 2)):
                if lo is None:
                    lo, hi = a, b; continue
                if (max(0, min(b, hi) - max(a, lo))) * 3 < 2 * (b - a):
                    ok = False
                lo, hi = min(lo, a), max(hi, b)
            if ok:
                break
        al = pa.DHTVPermutationAlignment(stft_size=2 * (F - 1), segment_start=start, segment_width=width, segment_shift=shift, main_iterations=20, sub_iterations=case.get('sub_iterations', 2), similarity_metric=metric)
    field = pa.sample_random_mapping(K, F, random_state=np.random.RandomState(int(rng.integers(2 ** 31))))
    fk = case['rs'][-1] % 5
    if fk == 3:
        field[:] = rng.permutation(K)[:, None]                 # "arbitrary" includes no diversity at all: one (non-trivial) order in every bin
    elif fk == 4:
        two = [rng.permutation(K), rng.permutation(K)]        # ... or only two different orders
        field = np.stack([two[int(b)] for b in rng.integers(0, 2, size=F)], axis=1)
    seg = np.arange(al.segment_start, al.segment_start + al.segment_width)
    field[:, rng.permutation(seg)[:int(np.ceil(0.7 * len(seg)))]] = rng.permutation(K)[:, None]
    # start: per-frequency permuted, blurred partition -------------------------------------------------------------------------
    b = case['blur']
    init_kft = pa.apply_mapping((1 - b) * truth + b * np.moveaxis(rng.dirichlet([1.0] * K, size=(F, T)), -1, 0), field)
    init = np.ascontiguousarray(np.transpose(init_kft, (1, 0, 2)))     # (F, K, T)
    Yt = np.ascontiguousarray(np.transpose(Y, (0, 2, 1)))             # (F, T, D)
    info = dict(model=case['model'], K=K, D=D, F=F, T=T, blur=b, metric=metric, level=case.get('level', 1.0), sub_iterations=case.get('sub_iterations', 2))
    try:
        with instr.options(K=K, aff_shape=(F, K, T), weight_constant_axis=(-1,), affiliation_eps=1e-10 if case['model'] == 'cacgmm' else 0.0,
                           eigenvalue_floor=1e-10, covariance_norm='eigenvalue', mask=None):
            if case['model'] == 'cacgmm':
                post = d.CACGMMTrainer().fit_predict(Yt, initialization=init, iterations=case['iters'])
            else:
                post = d.CWMMTrainer().fit_predict(Yt, initialization=init, iterations=case['iters'])
        est = np.transpose(post, (1, 0, 2))                            # (K, F, T)
        est = al(est)
        gm = (pa.OraclePermutationAlignment() if case['rs'][-1] % 2 else pa.OraclePermutationAlignment('cos')).calculate_mapping(est.reshape(K, F * T), truth.reshape(K, F * T))
        est = est[gm]
    except Exception as e:
        if not instr.is_library_exception(e):
            raise
        R.fail('C17.map-accuracy', f'pipeline/raised/{case["model"]}', f'pipeline raised {type(e).__name__}: {str(e)[:120]}', **info)
        return
    acc = float((est.argmax(0) == owner[None, :]).mean())
    R.check('C17.map-accuracy', acc >= 0.99, f'map-accuracy/{case["model"]}', f'maximum-posterior class equals the true source in only {100 * acc:.2f} % of the time-frequency points', accuracy=acc, **info)
    # masks -> PSDs -> beamformers -> SIR ----------------------------------------------------------------------------------------
    masks = np.transpose(est, (1, 0, 2))                               # (F, K, T)
    try:
        psd = get_power_spectral_density_matrix(Y, masks)              # (F, K, D, D)
    except Exception as e:
        if not instr.is_library_exception(e):
            raise
        R.fail('C17.sir', 'pipeline/raised/psd', f'{type(e).__name__}: {str(e)[:100]}', **info)
        return
    worst = {}
    for name in BEAMFORMERS:
        try:
            W = []
            for k in range(K):
                tgt = psd[:, k]
                nse = psd[:, [j for j in range(K) if j != k]].sum(1)
                bkw = {}
                if case['rs'][-1] % 2 and 'gev' in name:
                    if name.startswith('rank1_gev'):
                        bkw['atf_kwargs'] = {'use_eig': True}
                    if name.split('+')[-1] in ('gev', 'ban') and 'gev' in name.split('+'):
                        bkw['use_eig'] = True
                W.append(get_bf_vector(name, tgt, nse, **bkw))
            W = np.stack(W)                                            # (K, F, D)
            contrib = np.stack([[apply_beamforming_vector(W[kt], images[ks]).reshape(-1) for kt in range(K)] for ks in range(K)])   # (Ks, Kt, F*T)
            ncontrib = np.stack([apply_beamforming_vector(W[kt], noise).reshape(-1) for kt in range(K)])
            res = output_sxr(contrib, ncontrib, average_sources=False)
        except Exception as e:
            if not instr.is_library_exception(e):
                raise
            R.fail('C17.sir', f'pipeline/raised/{name}', f'beamformer {name} raised {type(e).__name__}: {str(e)[:100]}', **info)
            continue
        sir = np.asarray(res.sir, dtype=float)
        # own power ratio on the identity assignment (outputs are aligned to the truth by the oracle step)
        P = np.mean(np.abs(contrib) ** 2, axis=-1)
        own = np.array([10 * np.log10(P[k, k] / sum(P[j, k] for j in range(K) if j != k)) for k in range(K)])
        R.check('C17.sir', bool(np.allclose(sir, own, rtol=0, atol=1e-6)), f'sir-consistency/{name}', f'output_sxr SIR {sir} differs from the direct power ratio {own}', **info)
        worst[name] = float(min(sir.min(), own.min()))
        R.check('C17.sir', worst[name] >= 30.0, f'sir/{name.split("+")[0] if False else name}', f'beamformer {name}: output SIR {worst[name]:.1f} dB < 30 dB for some source', sir=sir, **info)
    if not (field == field[:, :1]).all():
        R.mark_nontrivial(case['model'], K, D, F, T // 50)
    R.sample(dict(**info, accuracy=acc, worst_sir_db=worst))

"""C20 - calls are pure: inputs untouched, results reproducible and history-free."""
import hashlib
import inspect

import numpy as np

from vmon import gen, instr, models, oracles, scen

from vmon.scale import S

ID = 'C20'
RULE = ('cases = every public entry point of the mixture, beamforming, masking, alignment, metric and initialiser modules (registry built by '
        'introspection and matched against a table of argument generators) called (a) with read-only argument arrays and (b) with writable '
        'copies: bytes of every argument array before/after, second identical call (re-seeded where num_classes draws the start), NumPy RNG / '
        'errstate / printoptions / warnings filters unchanged; returned arrays scribbled over before the repeat; the same call again after a call '
        'of the same entry point with other arguments; the same argument objects with contents changed in place versus fresh copies; results '
        'handed out earlier must survive later calls; two cases per entry point repeated in a fresh interpreter (first call / after three calls '
        'with other arguments) and compared byte for byte; trainer objects reused after up to 5 other fits versus fresh ones, dimension '
        'change on a reused trainer; cACGMM fits of n <= 20 iterations split into consecutive continued fits; non-trivial = the call has at '
        'least one array argument with > 1 element; distinct by (entry point, argument set)')
DECIDING = ['C20.purity', 'C20.repeat', 'C20.globals', 'C20.history', 'C20.split', 'C20.registry']
MIN_DECIDED = {'quick': 200, 'thorough': 2000}
CASE_TIMEOUT = {'quick': 300, 'thorough': 900}
ASSUMPTIONS = ['set_snr(inplace=True) is exempt for N only, as the property states']


# ---------------------------------------------------------------------------
# deep helpers
# ---------------------------------------------------------------------------

def arrays_in(obj, path='', out=None, depth=0):
    if out is None:
        out = []
    if depth > 5:
        return out
    if isinstance(obj, np.ndarray):
        out.append((path, obj))
    elif isinstance(obj, (list, tuple)):
        for i, v in enumerate(obj):
            arrays_in(v, f'{path}[{i}]', out, depth + 1)
    elif isinstance(obj, dict):
        for k, v in obj.items():
            arrays_in(v, f'{path}.{k}', out, depth + 1)
    elif hasattr(obj, '__dataclass_fields__'):
        for k in obj.__dataclass_fields__:
            arrays_in(getattr(obj, k), f'{path}.{k}', out, depth + 1)
    return out


def digest(a):
    return hashlib.sha1(np.ascontiguousarray(a).view(np.uint8).tobytes() if a.dtype != object else repr(a).encode()).hexdigest(), a.shape, str(a.dtype)


def same(a, b, depth=0):
    if depth > 6:
        return True
    if isinstance(a, np.ndarray) or isinstance(b, np.ndarray):
        a, b = np.asarray(a), np.asarray(b)
        return a.shape == b.shape and a.dtype == b.dtype and bool(np.array_equal(a, b, equal_nan=True) if a.dtype.kind in 'fc' else np.array_equal(a, b))
    if hasattr(a, '__dataclass_fields__'):
        return type(a) is type(b) and all(same(getattr(a, k), getattr(b, k), depth + 1) for k in a.__dataclass_fields__)
    if isinstance(a, dict):
        return isinstance(b, dict) and a.keys() == b.keys() and all(same(a[k], b[k], depth + 1) for k in a)
    if isinstance(a, (list, tuple)):
        return type(a) is type(b) and len(a) == len(b) and all(same(x, y, depth + 1) for x, y in zip(a, b))
    if isinstance(a, float) and isinstance(b, float):
        return a == b or (a != a and b != b)
    try:
        return bool(a == b)
    except Exception:
        return True


def module_state():
    """sizes / identities of every mutable module-level and class-level container of the pb_bss modules (a hidden cache that a
    call fills shows up here even when its effect on results needs a particular history to become visible)"""
    import sys
    out = {}
    for name, m in list(sys.modules.items()):
        if not (name == 'pb_bss' or name.startswith('pb_bss.')) or m is None:
            continue
        for k, v in list(vars(m).items()):
            if k.startswith('__'):
                continue
            if isinstance(v, (dict, list, set)):
                out[f'{name}.{k}'] = (id(v), len(v))
            elif isinstance(v, type) and getattr(v, '__module__', '') == name:
                for ck, cv in list(vars(v).items()):
                    if isinstance(cv, (dict, list, set)) and not ck.startswith('__'):
                        out[f'{name}.{k}.{ck}'] = (id(cv), len(cv))
    return out


def global_state():
    import warnings
    st = np.random.get_state()
    return dict(rng=hashlib.sha1(st[1].tobytes()).hexdigest() + str(st[2:]), err=repr(np.geterr()), po=repr(sorted(np.get_printoptions().items())),
                wf=len(warnings.filters), mod=module_state())


def setflags(obj, write):
    for _, a in arrays_in(obj):
        if a.flags.owndata or a.base is None or True:
            try:
                a.setflags(write=write)
            except ValueError:
                pass


# ---------------------------------------------------------------------------
# registry
# ---------------------------------------------------------------------------

def _cdata(rng, lead, N, D):
    return gen.cnormal(rng, (*lead, N, D)) @ np.linalg.cholesky(gen.hpd(rng, D, cond=10.0)).T


def _psds(rng, F, D):
    A = gen.cnormal(rng, (F, D, D))
    return np.einsum('fab,fcb->fac', A, A.conj()), gen.hpd(rng, D, cond=50.0, lead=(F,))


def build_registry():
    """name -> maker(rng) returning (callable, args, kwargs[, options]); options: seed (needs np.random.seed), exempt (arg paths that may change)."""
    from pb_bss import distribution as d, extraction as ex, permutation_alignment as pa, initializer as ini
    from pb_bss.distribution.complex_bingham import ComplexBingham, ComplexBinghamTrainer
    from pb_bss.evaluation import sxr_module as sx, si_sdr
    from pb_bss.extraction import beamformer as bf, beamformer_wrapper as bw, mask_module as mm
    reg = {}

    def mix(kind, method):
        def maker(rng):
            lead = (3,) if kind in models.INTEGRATION else (() if rng.uniform() < 0.5 else (2,))
            K, D, N = 2, 3, 14
            case = dict(kind=kind, cls='gauss', K=K, N=N, D=D, lead=list(lead), init='dirichlet:1' if rng.uniform() < 0.7 else 'num_classes', iters=2,
                        opts=scen.sample_opts(rng, kind, lead), rs=[int(rng.integers(2 ** 31))])
            case['opts'].pop('aligner', None)
            if case['init'] == 'num_classes':
                case['opts'].pop('mask', None)
            s = scen.build(case)
            tr = models.trainer(kind, **s.tkw)
            kw = dict(initialization=s.init, num_classes=s.num_classes, iterations=2, **s.opts)
            kw.update(models.data_args(kind, s.data))
            if method in ('fit', 'fit_predict'):
                return getattr(tr, method), (), kw, dict(seed=s.np_seed, copts=s.copts)
            np.random.seed(s.np_seed or 0)
            model = tr.fit(**kw)
            dk = models.data_args(kind, s.data)
            if method == 'predict':
                if kind in models.INTEGRATION:
                    return model.predict, (), dk, {}
                return model.predict, (s.data['y'],), {}, {}
            return model.log_likelihood, (s.data['y'],), {}, {}
        return maker
    for kind in models.KINDS:
        for method in ('fit', 'fit_predict', 'predict'):
            reg[f'{kind}.{method}'] = mix(kind, method)
    reg['cacgmm.log_likelihood'] = mix('cacgmm', 'log_likelihood')

    def continued(rng):
        # a fit continued from a returned model, with the options of the continuation differing from those of the first fit
        # (another floor / norm): the caller's model object is an argument like any other
        lead = () if rng.uniform() < 0.5 else (2,)
        y = _cdata(rng, lead, 7 if rng.uniform() < 0.5 else 14, 4)
        ini = gen.dirichlet_init(rng, lead, 2, y.shape[-2], alpha=1.0)
        first = d.CACGMMTrainer().fit(y, initialization=ini, iterations=2, covariance_norm=['eigenvalue', 'trace', False][int(rng.integers(3))])
        kw = dict(initialization=first, iterations=2, eigenvalue_floor=float(rng.choice([1e-10, 1e-3, 0.1])), covariance_norm=['eigenvalue', 'trace', False][int(rng.integers(3))])
        return d.CACGMMTrainer().fit, (y,), kw, {}
    reg['cacgmm.fit[continued from a model]'] = continued

    def hard_start(kind):
        def maker(rng):
            lead = () if rng.uniform() < 0.5 else (2,)
            y = _cdata(rng, lead, 12, 3)
            ini, _ = gen.onehot_init(rng, lead, 2, 12)
            tr = models.trainer(kind)
            kw = dict(initialization=ini, iterations=2)
            if kind in ('cbmm', 'cacgmm'):
                kw['affiliation_eps'] = float(rng.choice([0.0, 1e-10, 1e-3, 0.05]))
            return getattr(tr, 'fit' if rng.uniform() < 0.5 else 'fit_predict'), (y,), kw, {}
        return maker
    for kind in ('cacgmm', 'cwmm', 'cbmm'):
        reg[f'{kind}.fit[hard start, clipping option]'] = hard_start(kind)

    def soft_unnormalised(kind):
        def maker(rng):
            # class masks that were estimated independently (or clipped): positive class mass everywhere, not summing to one over the classes
            lead = () if rng.uniform() < 0.5 else (2,)
            real = kind in models.REAL
            y = (rng.standard_normal((*lead, 14, 3)) + 1) if real else _cdata(rng, lead, 14, 3)
            ini = rng.uniform(0.05, 1.0, size=(*lead, 2, 14))
            tr = models.trainer(kind)
            return getattr(tr, 'fit' if rng.uniform() < 0.5 else 'fit_predict'), (y,), dict(initialization=ini, iterations=2), {}
        return maker
    for kind in ('cacgmm', 'cwmm', 'cbmm', 'gmm', 'vmfmm'):
        reg[f'{kind}.fit[start not normalised over classes]'] = soft_unnormalised(kind)

    def dist_fit(fam):
        def maker(rng):
            lead = () if rng.uniform() < 0.5 else (2,)
            D, N = 3, 12
            real = fam in ('gauss', 'diag', 'spher', 'vmf')
            y = rng.standard_normal((*lead, N, D)) + 1 if real else _cdata(rng, lead, N, D)
            sal = rng.uniform(0.1, 1, size=(*lead, N)) if rng.uniform() < 0.5 and fam != 'cacg' else None
            f = {'gauss': lambda: (d.GaussianTrainer().fit, dict(covariance_type='full')), 'diag': lambda: (d.GaussianTrainer().fit, dict(covariance_type='diagonal')),
                 'spher': lambda: (d.GaussianTrainer().fit, dict(covariance_type='spherical')), 'ccsg': lambda: (d.ComplexCircularSymmetricGaussianTrainer().fit, {}),
                 'vmf': lambda: (d.VonMisesFisherTrainer().fit, {}), 'watson': lambda: (d.ComplexWatsonTrainer().fit, {}),
                 'cacg': lambda: (d.ComplexAngularCentralGaussianTrainer().fit, dict(iterations=3, covariance_norm=['eigenvalue', 'trace', False][int(rng.integers(3))])),
                 'bingham': lambda: (ComplexBinghamTrainer(max_concentration=500).fit, {})}[fam]()
            kw = dict(f[1])
            if fam != 'cacg':
                kw['saliency'] = sal
            return f[0], (y,), kw, {}
        return maker

    def dist_logpdf(fam):
        def maker(rng):
            fn, args, kw, _ = dist_fit(fam)(rng)
            m = fn(*args, **kw)
            y = args[0]
            x = y if fam not in ('watson', 'bingham') else oracles.unit(y)
            return m.log_pdf, (x.copy(),), {}, {}
        return maker
    for fam in ('gauss', 'diag', 'spher', 'ccsg', 'vmf', 'watson', 'cacg', 'bingham'):
        reg[f'trainer:{fam}.fit'] = dist_fit(fam)
        reg[f'dist:{fam}.log_pdf'] = dist_logpdf(fam)

    def from_cov(norm):
        def maker(rng):
            lead = () if rng.uniform() < 0.5 else (2,)
            return d.ComplexAngularCentralGaussian.from_covariance, (gen.hpd(rng, 3, cond=10.0, lead=lead),), dict(covariance_norm=norm, eigenvalue_floor=1e-10), {}
        return maker
    for norm in ('eigenvalue', 'trace', False):
        reg[f'ComplexAngularCentralGaussian.from_covariance[{norm}]'] = from_cov(norm)

    def cacg_props(rng):
        m = d.ComplexAngularCentralGaussian.from_covariance(gen.hpd(rng, 3, cond=10.0))
        return (lambda mm_: (mm_.covariance, mm_.log_determinant)), (m,), {}, {}
    reg['ComplexAngularCentralGaussian.covariance'] = cacg_props

    # extraction ------------------------------------------------------------------------------------------------
    def psd(rng):
        F, D, T, K = 3, 3, 10, 2
        X = gen.cnormal(rng, (F, D, T))
        mk = [None, rng.uniform(size=(F, K, T)), rng.uniform(size=(F, T)), rng.uniform(size=(F, K, T)) < 0.5][int(rng.integers(4))]
        return ex.get_power_spectral_density_matrix, (X, mk), dict(normalize=bool(rng.integers(0, 2))), {}
    reg['get_power_spectral_density_matrix'] = psd
    for name in ('get_mvdr_vector_souden', 'get_wmwf_vector', 'get_gev_vector'):
        def mk(rng, name=name):
            Px, Pn = _psds(rng, 4, 3)
            kw = {}
            if name == 'get_gev_vector':
                kw = dict(use_eig=bool(rng.integers(0, 2)))
                if rng.uniform() < 0.3:
                    Pn = Pn.copy(); Pn[int(rng.integers(len(Pn)))] = 0          # a bin without noise estimate (all-zero noise mask): refused with an exception
            elif rng.uniform() < 0.5:
                kw = {('ref_channel' if 'souden' in name else 'reference_channel'): 1}
            return getattr(bf, name), (Px, Pn), kw, {}
        reg[name] = mk
    def wmwf_fd(rng):
        # frequency dependent distortion weight; target PSDs with exact zeros (a muted first microphone in some bins, a rank-one target
        # whose steering vector vanishes at a sensor)
        Px, Pn = _psds(rng, 4, 3)
        if rng.uniform() < 0.7:
            a = gen.cnormal(rng, (4, 3)); a[rng.uniform(size=4) < 0.5, 0] = 0
            Px = np.einsum('fa,fb->fab', a, a.conj())
        return bf.get_wmwf_vector, (Px, Pn), dict(distortion_weight='frequency_dependent', reference_channel=int(rng.integers(0, 3))), {}
    reg['get_wmwf_vector[frequency_dependent]'] = wmwf_fd
    reg['get_mvdr_vector'] = lambda rng: (bf.get_mvdr_vector, (gen.cnormal(rng, (2, 4, 3)), _psds(rng, 4, 3)[1]), {}, {})
    reg['get_pca_vector'] = lambda rng: (bf.get_pca_vector, (_psds(rng, 4, 3)[0],), dict(scaling=[None, 'trace', 'eigenvalue'][int(rng.integers(3))]), {})
    reg['blind_analytic_normalization'] = lambda rng: (bf.blind_analytic_normalization, (gen.cnormal(rng, (4, 3)), _psds(rng, 4, 3)[1]), {}, {})
    reg['condition_covariance'] = lambda rng: (bf.condition_covariance, (_psds(rng, 4, 3)[0], 0.1), {}, {})
    reg['apply_beamforming_vector'] = lambda rng: (bf.apply_beamforming_vector, (gen.cnormal(rng, (4, 3)), gen.cnormal(rng, (4, 3, 7))), {}, {})
    reg['get_lcmv_vector'] = lambda rng: (bf.get_lcmv_vector, (gen.cnormal(rng, (2, 4, 3)), np.array([1.0, 0.0]), _psds(rng, 4, 3)[1]), {}, {})
    reg['phase_correction'] = lambda rng: (bf.phase_correction, (gen.cnormal(rng, (2, 5, 3)),), {}, {})
    reg['get_bf_vector'] = lambda rng: (ex.get_bf_vector, (['mvdr_souden', 'gev+ban', 'rank1_gev+wmwf', 'pca+mvdr', 'rank1_pca+mvdr_souden+ban'][int(rng.integers(5))], *_psds(rng, 4, 3)), {}, {})
    reg['get_pca_rank_one_estimate'] = lambda rng: (bw.get_pca_rank_one_estimate, (_psds(rng, 4, 3)[0],), {}, {})
    reg['get_gev_rank_one_estimate'] = lambda rng: (bw.get_gev_rank_one_estimate, _psds(rng, 4, 3), {}, {})
    for name in ('ideal_binary_mask', 'wiener_like_mask', 'ideal_ratio_mask', 'ideal_amplitude_mask', 'phase_sensitive_mask', 'ideal_complex_mask'):
        def mk(rng, name=name):
            kw = dict(source_axis=int(rng.integers(0, 3)))
            return getattr(mm, name), (gen.cnormal(rng, (2, 3, 6)),), kw, {}
        reg[name] = mk
    reg['lorenz_mask'] = lambda rng: (mm.lorenz_mask, (gen.cnormal(rng, (2, 5, 8)),), dict(lorenz_fraction=0.9), {})
    reg['quantile_mask'] = lambda rng: (mm.quantile_mask, (gen.cnormal(rng, (2, 5, 8)),), dict(quantile=[0.2, -0.3, (0.1, -0.9)][int(rng.integers(3))], axis=[-2, (-2, -1), (0, 1, 2)][int(rng.integers(3))]), {})
    reg['biased_binary_mask'] = lambda rng: (mm.biased_binary_mask, (gen.cnormal(rng, (2, 4, 20)),), {}, {})
    reg['voiced_unvoiced_split_characteristic'] = lambda rng: (mm.voiced_unvoiced_split_characteristic, (65,), {}, {})
    # alignment ---------------------------------------------------------------------------------------------------
    def aligner(which, method):
        def maker(rng):
            K, F, T = 3, 9, 8
            mask = rng.uniform(size=(K, F, T)) if rng.uniform() < 0.7 else (rng.uniform(size=(K, F, T)) < 0.5).astype(float)
            metric = ['cos', 'euclidean', 'multiply'][int(rng.integers(3))]
            if which == 'dhtv':
                al = pa.DHTVPermutationAlignment(stft_size=16, segment_start=2, segment_width=4, segment_shift=1, main_iterations=4, sub_iterations=2, similarity_metric=metric)
                args = (mask,)
            elif which == 'greedy':
                al = pa.GreedyPermutationAlignment(similarity_metric=metric)
                args = (mask,)
            else:
                al = pa.OraclePermutationAlignment(similarity_metric=metric)
                args = (mask, rng.uniform(size=(K, F, T)))
            return getattr(al, method), args, {}, {}
        return maker
    for which in ('dhtv', 'greedy', 'oracle'):
        reg[f'{which}.calculate_mapping'] = aligner(which, 'calculate_mapping')
        reg[f'{which}.__call__'] = aligner(which, '__call__')
    reg['apply_mapping'] = lambda rng: (pa.apply_mapping, (rng.uniform(size=(3, 5, 4)), pa.sample_random_mapping(3, 5, np.random.RandomState(1))), {}, {})
    def dhtv_default(rng):
        size = int(rng.choice([512, 512, 512, 1024]))
        metric = [None, 'cos', 'euclidean', 'multiply'][int(rng.integers(4))]
        mask = rng.uniform(0.05, 1, size=(2, size // 2 + 1, 6))
        f = (lambda m: pa.DHTVPermutationAlignment.from_stft_size(size).calculate_mapping(m)) if metric is None else (lambda m: pa.DHTVPermutationAlignment.from_stft_size(size, similarity_metric=metric).calculate_mapping(m))
        return f, (mask,), {}, {}
    reg['DHTVPermutationAlignment.from_stft_size(...).calculate_mapping'] = dhtv_default
    reg['dhtv.alignment_plan'] = lambda rng: ((lambda: pa.DHTVPermutationAlignment.from_stft_size(512).alignment_plan), (), {}, {})
    reg['_mapping_from_score_matrix'] = lambda rng: (pa._mapping_from_score_matrix, (rng.standard_normal((4, 3, 3)),), dict(algorithm=['greedy', 'optimal'][int(rng.integers(2))]), {})
    # metrics -------------------------------------------------------------------------------------------------------
    reg['si_sdr'] = lambda rng: (si_sdr, (rng.standard_normal((2, 50)), rng.standard_normal((2, 50))), {}, {})
    reg['input_sxr'] = lambda rng: (sx.input_sxr, (rng.standard_normal((2, 3, 40)), rng.standard_normal((3, 40))), dict(return_dict=[False, True, 'p_'][int(rng.integers(3))]), {})
    reg['output_sxr'] = lambda rng: (sx.output_sxr, (rng.standard_normal((2, 3, 40)), rng.standard_normal((3, 40))), dict(return_dict=[False, True, 'p_'][int(rng.integers(3))]), {})
    reg['get_snr'] = lambda rng: (sx.get_snr, (rng.standard_normal((3, 40)), rng.standard_normal((3, 40))), {}, {})
    reg['set_snr'] = lambda rng: (sx.set_snr, (rng.standard_normal((3, 40)), rng.standard_normal((3, 40)), 5.0), dict(inplace=False), {})
    reg['set_snr.inplace'] = lambda rng: (sx.set_snr, (rng.standard_normal((3, 40)), rng.standard_normal((3, 40)), 5.0), dict(inplace=True), dict(exempt=('args[1]',), no_readonly=('args[1]',)))
    # initialisers ----------------------------------------------------------------------------------------------------
    for name in ('uniform_normalized', 'dirichlet_uniform', 'dirichlet', 'one_hot'):
        reg[f'iid.{name}'] = lambda rng, name=name: (getattr(ini.iid, name), (gen.cnormal(rng, (2, 6, 3)), 3), dict(permutation_free=bool(rng.integers(0, 2))), dict(seed=7))
    reg['deterministic.flag'] = lambda rng: (ini.deterministic.flag, (gen.cnormal(rng, (2, 6, 3)), 3), dict(permutation_free=True, minimum=0.1), {})
    reg['deflation.deflationSeed'] = lambda rng: (ini.deflation.deflationSeed, (gen.cnormal(rng, (257, 14, 3)), 2), dict(neighbors=2), {})
    return reg


NOT_DRIVEN = {
    'get_lcmv_vector_souden': 'raises NotImplementedError by design',
    'sample_cacgmm': 'sampling helper: draws from the global RNG by contract, not part of the anchored estimation API',
    'sample_complex_angular_central_gaussian': 'sampling helper (global RNG by contract)',
    'normalize_observation': 'helper re-exported by cacgmm; exercised inside every fit',
}


def public_surface():
    """public callables of the anchored modules found by introspection -> registry key that covers them (or None)."""
    from pb_bss import permutation_alignment as pa
    from pb_bss.evaluation import sxr_module as sx
    from pb_bss.extraction import beamformer as bf, mask_module as mm
    from pb_bss.distribution import cacgmm as cg, complex_angular_central_gaussian as ca
    from pb_bss.initializer import iid
    found = {}
    for mod in (bf, mm, sx, cg, ca, iid):
        for n in getattr(mod, '__all__', []):
            o = getattr(mod, n, None)
            if inspect.isfunction(o):
                found[n] = ('iid.' + n) if mod is iid else n
    for n in pa.__all__:
        cls = getattr(pa, n)
        short = {'DHTVPermutationAlignment': 'dhtv', 'OraclePermutationAlignment': 'oracle', 'GreedyPermutationAlignment': 'greedy'}[n]
        for meth in ('calculate_mapping', '__call__'):
            found[f'{n}.{meth}'] = f'{short}.{meth}'
    return found


def plan(tier, seed):
    rng = np.random.default_rng([seed, 120])
    reps = S(tier, 3, 40)
    cases = [dict(lane='registry', rs=[seed, 20, 0])]
    i = 1
    names = sorted(build_registry_names())
    for name in names:
        for r in range(reps if not name.startswith(('cbmm', 'trainer:bingham', 'dist:bingham')) else max(1, reps // 3)):
            cases.append(dict(lane='entry', name=name, rs=[seed, 21, i])); i += 1
            if r in (0, 1) or (tier == 'thorough' and r % 10 == 0):
                # one case per entry point is repeated in a fresh interpreter (see run_entry); for every other one the fresh interpreter
                # serves a call with other arguments first
                cases[-1]['twin'] = 'first-call' if r == 0 else 'after-other-arguments'
    h = S(tier, 40, 400)
    for r in range(h):
        cases.append(dict(lane='history', kind=['cacgmm', 'cwmm', 'cbmm', 'gmm', 'vmfmm', 'gcacgmm', 'vmfcacgmm', 'T:watson', 'T:bingham', 'T:cacg', 'T:gauss', 'T:vmf'][r % 12],
                          n_before=int(rng.integers(1, 6)), rs=[seed, 22, i])); i += 1
    for r in range(h):
        cases.append(dict(lane='split', n=int(rng.integers(2, 21)), K=int(rng.integers(2, 4)), D=int(rng.integers(2, 6)), lead=[[], [3], [2, 2]][int(rng.integers(3))], rs=[seed, 23, i])); i += 1
    return cases


_NAMES = None


def build_registry_names():
    # names only (cheap, no pb_bss import needed at plan time would be nicer, but the plan runs in the worker too)
    global _NAMES
    if _NAMES is None:
        import os, sys
        repo = os.environ.get('VERIF_REPO', '/repo')
        if repo not in sys.path:
            sys.path.insert(0, repo)
        import warnings
        with warnings.catch_warnings():
            warnings.simplefilter('ignore')
            _NAMES = list(build_registry().keys())
    return _NAMES


def run_case(case, R):
    with instr.fp_guard():
        globals()['run_' + case['lane']](case, R)


def run_registry(case, R):
    reg = build_registry()
    surf = public_surface()
    missing = [n for n, key in surf.items() if key not in reg and n not in NOT_DRIVEN]
    R.check('C20.registry', not missing, 'registry/uncovered-public-callable', f'public callables without an argument generator or an explicit exclusion: {missing}', missing=missing)
    R.count('registry entries', len(reg))
    R.count('public callables found by introspection', len(surf))
    R.sample(dict(lane='registry', entries=sorted(reg.keys()), not_driven=NOT_DRIVEN))
    R.mark_nontrivial('registry', len(reg))
    R.mark_nontrivial('registry-surface', len(surf))


def _relayout(x, layout):
    if isinstance(x, np.ndarray) and x.ndim >= 2 and x.size > 1:
        if layout == 'f':
            return np.asfortranarray(x)
        if layout == 'colmajor':
            return np.ascontiguousarray(np.swapaxes(x, -1, -2)).swapaxes(-1, -2)
        if layout == 'view':
            big = np.zeros(x.shape[:-1] + (2 * x.shape[-1],), dtype=x.dtype)
            big[..., ::2] = x
            return big[..., ::2]
    return x


def fingerprint(r):
    """hashable description of a result: paths, shapes, dtypes and bytes of all arrays, repr of scalars"""
    parts = []

    def rec(o_, path, depth=0):
        if depth > 6:
            return
        if isinstance(o_, np.ndarray):
            parts.append((path, digest(o_)))
        elif hasattr(o_, '__dataclass_fields__'):
            for k in o_.__dataclass_fields__:
                rec(getattr(o_, k), f'{path}.{k}', depth + 1)
        elif isinstance(o_, dict):
            for k in sorted(o_, key=str):
                rec(o_[k], f'{path}[{k!r}]', depth + 1)
        elif isinstance(o_, (list, tuple)):
            for i_, v in enumerate(o_):
                rec(v, f'{path}[{i_}]', depth + 1)
        elif isinstance(o_, (int, float, complex, str, bool, type(None), np.generic)):
            parts.append((path, repr(o_)))
        else:
            parts.append((path, type(o_).__name__))
    rec(r, 'r')
    return hashlib.sha1(repr(parts).encode()).hexdigest()


def first_call_fingerprint(case):
    """the same entry call as run_entry makes first, for use in a fresh interpreter (nothing else has been called there before)"""
    import warnings
    warnings.simplefilter('ignore')
    reg = build_registry()
    rng = gen.rng_of(case)
    fn, args, kw, o = (reg[case['name']](rng) + ({},))[:4]
    o = o or {}
    layout = ['c', 'f', 'view', 'colmajor'][int(rng.integers(0, 4))]
    if layout != 'c' and not o.get('exempt'):
        args = tuple(_relayout(a, layout) for a in args)
        kw = {k: _relayout(v, layout) for k, v in kw.items()}
    if case.get('twin') == 'after-other-arguments':
        # the very first call of this interpreter is the same entry point with OTHER arguments (whatever it returns or raises)
        for j in range(3):
            try:
                fn_b, args_b, kw_b, o_b = (reg[case['name']](np.random.default_rng([*case['rs'], 4711 + j])) + ({},))[:4]
                if (o_b or {}).get('seed') is not None:
                    np.random.seed(o_b['seed'])
                fn_b(*args_b, **kw_b)
            except Exception:
                pass
    if o.get('seed') is not None:
        np.random.seed(o['seed'])
    return fingerprint(fn(*args, **kw))


def run_entry(case, R):
    reg = build_registry()
    name = case['name']
    rng = gen.rng_of(case)
    with instr.disarmed():
        try:
            fn, args, kw, o = (reg[name](rng) + ({},))[:4]
        except Exception as e:
            if not instr.is_library_exception(e):
                raise
            R.count(f'setup of {name} raised {type(e).__name__}')
            R.undecided('C20.purity', 'setup raised')
            return
    o = o or {}
    # memory layout of the argument arrays: C order, Fortran order (e.g. loadmat output) or a non-contiguous view
    layout = ['c', 'f', 'view', 'colmajor'][int(rng.integers(0, 4))]

    relayout = lambda x: _relayout(x, layout)
    if layout != 'c' and not o.get('exempt'):
        args = tuple(relayout(a) for a in args)
        kw = {k: relayout(v) for k, v in kw.items()}
        if getattr(fn, '__self__', None) is not None and name.startswith(('dist:', 'cacgmm.log_likelihood')) is False:
            pass
    exempt = set(o.get('exempt', ()))
    no_ro = set(o.get('no_readonly', ()))
    arrs = arrays_in(dict(args=list(args), kwargs=kw))
    arrs = [(p.replace('.args', 'args').replace('.kwargs', 'kwargs'), a) for p, a in arrs]
    before = {p: digest(a) for p, a in arrs}
    seed = o.get('seed')
    import contextlib
    opt_ctx_f = lambda: instr.options(**o['copts']) if o.get('copts') else contextlib.nullcontext()
    # (b) writable copies first (reference result) -----------------------------------------------------------------
    g0 = global_state()
    if seed is not None:
        np.random.seed(seed)
    try:
        with opt_ctx_f():
            r1 = fn(*args, **kw)
    except Exception as e:
        if not instr.is_library_exception(e):
            raise
        R.count(f'{name} raised {type(e).__name__}: {str(e)[:60]}')
        R.undecided('C20.purity', 'call raised')
        return
    import copy
    r1_raw = r1
    r1 = copy.deepcopy(r1)
    if case.get('twin') and not o.get('exempt') and (seed is not None or kw.get('num_classes') is None):
        # fresh-interpreter twin: this worker process has served hundreds of other calls before; a process that has done nothing else
        # must get the same bytes for the same first call (anything that sticks from earlier calls - a default remembered per size,
        # a fallback flag flipped by an earlier input - changes them)
        import json as _json, subprocess, sys as _sys
        try:
            pr = subprocess.run([_sys.executable, '-B', '-c', 'import json,sys\nfrom vmon.props import c20\nprint("FP", c20.first_call_fingerprint(json.loads(sys.argv[1])))', _json.dumps(case)],
                                capture_output=True, text=True, timeout=120)
            fp = [l.split()[1] for l in pr.stdout.splitlines() if l.startswith('FP ')]
            if fp:
                R.check('C20.history', fp[0] == fingerprint(r1), f'history/differs-from-fresh-process/{name}', f'{name}: this process (which served other calls before) returns other bytes than a fresh interpreter for the same call')
                R.count('fresh-interpreter twins compared')
            else:
                R.count('fresh-interpreter twin produced no fingerprint: ' + (pr.stderr.strip().splitlines() or ['?'])[-1][:80])
        except subprocess.TimeoutExpired:
            R.count('fresh-interpreter twin timed out')
    g1 = global_state()
    # the caller owns what it was handed: scribbling over the returned arrays (unless they are views of the caller's own arguments)
    # must not reach any later call - a result served again from a cache, or a stored table handed out by reference, shows up here
    if not o.get('exempt'):
        for _, ra in arrays_in(dict(result=r1_raw if not isinstance(r1_raw, np.ndarray) else [r1_raw])):
            if ra.flags.writeable and ra.size and not any(np.may_share_memory(ra, a) for _, a in arrs):
                try:
                    ra[...] = (np.nan if ra.dtype.kind in 'fc' else (1 if ra.dtype.kind == 'b' else 77))
                except (ValueError, TypeError):
                    pass
    changed = [p for p, a in arrs if digest(a) != before[p] and p not in exempt]
    R.check('C20.purity', not changed, f'purity/modified/{name}', f'{name} modified its argument(s) {changed}', args=changed)
    keys = ['err', 'po', 'wf', 'mod'] + (['rng'] if seed is None else [])
    diffg = [k for k in keys if g0[k] != g1[k]]
    if 'mod' in diffg:
        changed_mod = sorted(k for k in set(g0['mod']) | set(g1['mod']) if g0['mod'].get(k) != g1['mod'].get(k))
        diffg[diffg.index('mod')] = 'module/class-level containers ' + ', '.join(changed_mod)[:200]
    if seed is None and 'rng' in diffg and ('num_classes' in kw and kw.get('num_classes') is not None):
        diffg.remove('rng')
    R.check('C20.globals', not diffg, f'globals/changed/{name}', f'{name} changed global state {diffg} (NumPy RNG state / errstate / printoptions / warning filters)', changed=diffg)
    # second identical call -----------------------------------------------------------------------------------------------
    if seed is not None:
        np.random.seed(seed)
    elif kw.get('num_classes') is not None:
        R.undecided('C20.repeat', 'draws from the global RNG without a seed')
        seed = 0
    try:
        with opt_ctx_f():
            if o.get('exempt'):
                # in-place variant: restore the exempt argument before repeating
                pass
            r2 = fn(*args, **kw) if not o.get('exempt') else r1
    except Exception as e:
        if not instr.is_library_exception(e):
            raise
        R.fail('C20.repeat', f'repeat/raised/{name}', f'second identical call of {name} raised {type(e).__name__}')
        return
    R.check('C20.repeat', same(r1, r2), f'repeat/differs/{name}', f'repeating {name} with identical arguments gives a different result')
    # history-free: another call of the same entry point with OTHER arguments in between (a second draw of this case's generator, whatever
    # it returns or raises) must not change what the original arguments give
    if not o.get('exempt'):
        try:
            with instr.disarmed():
                fn_b, args_b, kw_b, o_b = (reg[name](np.random.default_rng([*case['rs'], 4711])) + ({},))[:4]
                try:
                    if (o_b or {}).get('seed') is not None:
                        np.random.seed(o_b['seed'])
                    fn_b(*args_b, **kw_b)
                except Exception:
                    pass
            if seed is not None:
                np.random.seed(seed)
            with opt_ctx_f():
                r2b = fn(*args, **kw)
            R.check('C20.repeat', same(r1, r2b), f'repeat/depends-on-earlier-call/{name}', f'{name}: the result for the same arguments changed after the entry point had been called with other arguments in between')
        except Exception as e:
            if not instr.is_library_exception(e):
                raise
            R.count(f'{name}: interleaved probe raised {type(e).__name__}')
    # (a) read-only arguments -------------------------------------------------------------------------------------------------
    ro = [a for p, a in arrs if p not in no_ro]
    for a in ro:
        a.setflags(write=False)
    if seed is not None:
        np.random.seed(seed)
    try:
        with opt_ctx_f():
            r3 = fn(*args, **kw)
        if not o.get('exempt'):
            R.check('C20.purity', same(r1, r3), f'purity/readonly-result-differs/{name}', f'{name} gives a different result for read-only arguments')
        else:
            R.ok('C20.purity')
    except ValueError as e:
        if 'read-only' in str(e) or 'readonly' in str(e):
            tb = e.__traceback__
            site = '?'
            while tb is not None:
                fnm = tb.tb_frame.f_code.co_filename
                if '/pb_bss/' in fnm:
                    site = fnm.split('/pb_bss/', 1)[1] + ':' + str(tb.tb_lineno)
                tb = tb.tb_next
            R.fail('C20.purity', f'purity/readonly-rejected/{name}', f'{name} writes into a read-only argument at {site}', site=site)
        else:
            R.fail('C20.purity', f'purity/readonly-raised/{name}', f'{name} raised ValueError only for read-only arguments: {str(e)[:100]}')
    except Exception as e:
        if not instr.is_library_exception(e):
            raise
        R.fail('C20.purity', f'purity/readonly-raised/{name}', f'{name} raised {type(e).__name__} only for read-only arguments: {str(e)[:100]}')
    finally:
        for a in ro:
            try:
                a.setflags(write=True)
            except ValueError:
                pass
    changed = [p for p, a in arrs if digest(a) != before[p] and p not in exempt]
    R.check('C20.purity', not changed, f'purity/modified/{name}', f'{name} modified its argument(s) {changed}', args=changed)
    # (c) values, not identities: the same argument objects with new contents (a caller updating its buffers in place, e.g. recursive
    # PSD smoothing) must give what fresh copies of the new contents give, and a result handed out earlier must survive later calls
    if not o.get('exempt') and seed is None or (not o.get('exempt') and kw.get('num_classes') is None):
        tweak = [a for pth, a in arrs if a.dtype.kind in 'fc' and a.flags.writeable and a.size and pth.startswith('args')]
        if tweak:
            try:
                with opt_ctx_f():
                    if seed is not None:
                        np.random.seed(seed)
                    held_raw = fn(*args, **kw)
                held = copy.deepcopy(held_raw)
                saved = [a.copy() for a in tweak]
                for a in tweak:
                    a *= 1.25                                   # exact in binary: positivity, Hermitian symmetry, unit directions survive
                try:
                    args_f, kw_f = copy.deepcopy((args, kw))
                    with opt_ctx_f():
                        if seed is not None:
                            np.random.seed(seed)
                        r_same_objects = copy.deepcopy(fn(*args, **kw))
                        if seed is not None:
                            np.random.seed(seed)
                        r_fresh_objects = fn(*args_f, **kw_f)
                    R.check('C20.repeat', same(r_same_objects, r_fresh_objects), f'repeat/identity-not-value/{name}',
                            f'{name}: the same argument objects with new contents give another result than fresh copies of those contents (something is remembered per object)')
                    aliases_args = any(np.may_share_memory(ra, a) for _, ra in arrays_in(dict(result=held_raw if not isinstance(held_raw, np.ndarray) else [held_raw])) for _, a in arrs)
                    # (a result that is a view of the caller's own argument changes with it, by the caller's own doing)
                    R.check('C20.repeat', aliases_args or same(held_raw, held), f'repeat/earlier-result-overwritten/{name}',
                            f'{name}: a result handed out by an earlier call was changed by a later call (results share a buffer)')
                finally:
                    for a, b in zip(tweak, saved):
                        a[...] = b
            except Exception as e:
                if not instr.is_library_exception(e):
                    raise
                R.count(f'{name}: value-vs-identity probe raised {type(e).__name__}')
    if any(a.size > 1 for _, a in arrs):
        R.mark_nontrivial('entry', name, layout, sorted((k, str(v)[:20]) for k, v in kw.items() if not isinstance(v, np.ndarray)))
    R.sample(dict(lane='entry', name=name, array_args=[p for p, _ in arrs][:6]))


# ---------------------------------------------------------------------------
# history
# ---------------------------------------------------------------------------

def run_history(case, R):
    from pb_bss import distribution as d
    from pb_bss.distribution.complex_bingham import ComplexBinghamTrainer
    rng = gen.rng_of(case)
    kind = case['kind']
    if kind.startswith('T:'):
        fam = kind[2:]
        D = 3
        mk = {'watson': lambda: d.ComplexWatsonTrainer(), 'bingham': lambda: ComplexBinghamTrainer(max_concentration=500), 'cacg': lambda: d.ComplexAngularCentralGaussianTrainer(),
              'gauss': lambda: d.GaussianTrainer(), 'vmf': lambda: d.VonMisesFisherTrainer()}[fam]
        real = fam in ('gauss', 'vmf')
        data = lambda DD, N: (rng.standard_normal((N, DD)) + 1) if real else _cdata(rng, (), N, DD)
        reused = mk()
        for _ in range(case['n_before']):
            try:
                reused.fit(data(D, int(rng.integers(6, 20))))
            except Exception:
                pass
        y = data(D, 15)
        a, b = reused.fit(y), mk().fit(y)
        R.check('C20.history', same(a, b), f'history/trainer/{fam}', f'a reused {fam} trainer gives a different result than a fresh one')
        if fam in ('watson', 'bingham'):
            try:
                res = reused.fit(data(D + 1, 15))
                R.fail('C20.history', f'history/dimension-change-accepted/{fam}', f'a reused {fam} trainer accepted a different feature dimension instead of raising (cached tables)')
            except Exception:
                R.ok('C20.history')
        R.mark_nontrivial('history', kind, case['n_before'])
        return
    lead = (3,) if kind in models.INTEGRATION else ()

    def mkcase(K, D, N, seed_):
        c = dict(kind=kind, cls='gauss', K=K, N=N, D=D, lead=list(lead), init='dirichlet:1', iters=2, opts=scen.sample_opts(rng, kind, lead), rs=[seed_])
        c['opts'].pop('aligner', None); c['opts'].pop('mask', None)
        return scen.build(c)
    D = 3
    target = mkcase(2, D, 16, int(rng.integers(2 ** 31)))
    tr = models.trainer(kind, **target.tkw)

    def call(trainer, s):
        kw = dict(initialization=s.init, iterations=s.iterations, **s.opts)
        kw.update(models.data_args(kind, s.data))
        with instr.options(**s.copts):
            return trainer.fit(**kw)
    for _ in range(case['n_before']):
        other = mkcase(int(rng.integers(2, 4)), D, int(rng.integers(10, 24)), int(rng.integers(2 ** 31)))
        other.tkw = target.tkw
        try:
            call(tr, other)
        except Exception as e:
            if not instr.is_library_exception(e):
                raise
            R.count(f'earlier fit raised {type(e).__name__}')
    try:
        a = call(tr, target)
        b = call(models.trainer(kind, **target.tkw), target)
    except Exception as e:
        if not instr.is_library_exception(e):
            raise
        R.undecided('C20.history', f'fit raised {type(e).__name__}')
        return
    R.check('C20.history', same(a, b), f'history/{kind}', f'a reused {kind} trainer (after {case["n_before"]} other fits) gives a different model than a fresh one', n_before=case['n_before'])
    if kind in ('cwmm', 'cbmm'):
        bigger = mkcase(2, D + 1, 16, int(rng.integers(2 ** 31)))
        bigger.tkw = target.tkw
        try:
            call(tr, bigger)
            R.fail('C20.history', f'history/dimension-change-accepted/{kind}', f'a reused {kind} trainer accepted a different feature dimension instead of raising (cached tables)')
        except Exception:
            R.ok('C20.history')
    R.mark_nontrivial('history', kind, case['n_before'])
    R.sample(dict(lane='history', kind=kind, n_before=case['n_before']))


def run_split(case, R):
    rng = gen.rng_of(case)
    n, K, D, lead = case['n'], case['K'], case['D'], tuple(case['lead'])
    o = scen.sample_opts(rng, 'cacgmm', lead)
    if len(lead) == 1 and lead[0] % 2 == 1 and rng.uniform() < 0.5:
        o['wca'] = [-3] if rng.uniform() < 0.5 else [-3, -1]
        o['aligner'] = ['greedy-cos', 'greedy-euclidean'][int(rng.integers(2))]
        o.pop('mask', None)
    else:
        o.pop('aligner', None)
    c = dict(kind='cacgmm', cls='gauss', K=K, N=int(rng.integers(4 * K, 10 * K + 6)), D=D, lead=list(lead), init='dirichlet:1', iters=n, opts=o, rs=[int(rng.integers(2 ** 31))])
    s = scen.build(c)
    # random composition n = n1 + ... + nj
    parts = []
    left = n
    while left > 0:
        p = int(rng.integers(1, left + 1))
        parts.append(p); left -= p
    try:
        with instr.options(**s.copts):
            whole = scen.fit(s)
            m = None
            for p in parts:
                m = scen.fit(s, iterations=p) if m is None else models.fit('cacgmm', s.data, init=m, iterations=p, **s.opts)
    except Exception as e:
        if not instr.is_library_exception(e):
            raise
        R.undecided('C20.split', f'fit raised {type(e).__name__}')
        return
    if same(whole, m):
        R.ok('C20.split')
    else:
        a, b = models.model_arrays(whole), models.model_arrays(m)
        dev = max(float(np.abs(np.asarray(a[k]) - np.asarray(b[k])).max()) for k in a)
        if dev <= 1e-12:
            R.count('split fit equal only up to rounding')
            R.ok('C20.split')
        else:
            R.fail('C20.split', 'split/differs', f'cACGMM fit of {n} iterations differs from the split {parts} continued from the returned model (max dev {dev:.3e})', parts=parts, opts=o)
    if len(parts) >= 2:
        R.mark_nontrivial('split', n, len(parts), o.get('wca'), bool(o.get('mask')), o.get('saliency'), o.get('aligner'))
    R.sample(dict(lane='split', n=n, parts=parts, opts=o, lead=list(lead)))

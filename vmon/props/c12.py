"""C12 - GEV and PCA beamformers maximise their Rayleigh quotients; BAN only rescales."""
import numpy as np
import scipy.linalg

from vmon import gen, instr

from vmon.scale import S

ID = 'C12'
RULE = ('cases = Hermitian PSD targets (full or low rank) and positive definite noise PSDs (condition number up to 1e6, D 2..8, any '
        'leading axes): the Rayleigh quotient of get_gev_vector (use_eig False/True) equals the largest generalised eigenvalue '
        '(scipy eigvalsh and numpy eigvalsh of the whitened matrix) and is not exceeded by random probes, the other generalised '
        'eigenvectors or any other beamformer of the wrapper; PCA likewise with its scalings; rank-one estimates; BAN factor; '
        'non-trivial = leading axes or condition number > 10; distinct by (lane, D, lead, cond decade, options)')
DECIDING = ['C12.gev', 'C12.pca', 'C12.rank1', 'C12.ban']
MIN_DECIDED = {'quick': 250, 'thorough': 2500}
ARM = ()
ASSUMPTIONS = ['scipy.linalg.eigvalsh (generalised) and numpy.linalg.eigvalsh/cholesky are the reference', 'the SciPy path is what runs on this tree (c_gev_available is False); the implementation that ran is recorded']
LEADS = [[], [1], [4], [2, 3], [2, 1, 2]]


def plan(tier, seed):
    rng = np.random.default_rng([seed, 112])
    n = S(tier, 90, 900)
    cases, i = [], 0
    for lane in ('gev', 'pca', 'rank1', 'ban'):
        for r in range(n):
            D = int(rng.integers(2, 9))
            cases.append(dict(lane=lane, D=D, lead=LEADS[int(rng.integers(len(LEADS)))], cond=float(10 ** rng.uniform(0, 6)),
                              rank=int(rng.integers(1, D + 1)), use_eig=bool(rng.integers(0, 2)), structure=STRUCTURES[int(rng.integers(len(STRUCTURES)))], rs=[seed, 12, i]))
            i += 1
    return cases


def run_case(case, R):
    with instr.fp_guard():
        globals()['run_' + case['lane']](case, R)


def quad(w, P):
    return np.einsum('...a,...ab,...b->...', w.conj(), P, w).real


STRUCTURES = ['dense', 'dense', 'dense', 'deadmic', 'diagonal', 'blockdiag', 'sparse']


def psd_target(rng, D, lead, rank, structure='dense'):
    """Hermitian PSD target of the given rank; structured variants have exact zeros (a muted microphone, uncorrelated channels,
    two uncorrelated channel groups, a steering vector with vanishing entries), so that eigenvectors have exactly zero components."""
    A = gen.cnormal(rng, (*lead, D, rank)) * 10 ** rng.uniform(-2, 2)
    if structure == 'deadmic':
        A[..., 0 if rng.uniform() < 0.6 else int(rng.integers(D)), :] = 0
    elif structure == 'sparse':
        A[..., rng.permutation(D)[:max(1, D // 2)], :] = 0
        if rng.uniform() < 0.5:
            A[..., 0, :] = 0
        if not np.abs(A).sum(-2).all():
            A[..., D - 1, :] = gen.cnormal(rng, (*lead, rank))
    P = np.einsum('...ab,...cb->...ac', A, A.conj())
    if structure == 'diagonal':
        P = P * np.eye(D)
    elif structure == 'blockdiag' and D >= 2:
        h = int(rng.integers(1, D))
        blk = np.zeros((D, D)); blk[:h, :h] = 1; blk[h:, h:] = 1
        P = P * blk
    return P


def lam_max(Px, Pn):
    out = np.empty(Px.shape[:-2])
    out2 = np.empty(Px.shape[:-2])
    for idx in np.ndindex(*Px.shape[:-2]):
        out[idx] = scipy.linalg.eigvalsh(Px[idx], Pn[idx])[-1]
        L = np.linalg.cholesky(Pn[idx])
        Li = np.linalg.inv(L)
        out2[idx] = np.linalg.eigvalsh(Li @ Px[idx] @ Li.conj().T)[-1]
    return out, out2


def run_gev(case, R):
    from pb_bss.extraction import beamformer as bf, get_bf_vector
    rng = gen.rng_of(case)
    D, lead = case['D'], tuple(case['lead'])
    Px = psd_target(rng, D, lead, case['rank'], case.get('structure', 'dense'))
    Pn = gen.hpd(rng, D, cond=case['cond'], lead=lead, scale=float(10 ** rng.uniform(-2, 2)))
    nstruct = ['dense', 'dense', 'diagonal', 'white'][case['rs'][-1] % 4 if case['rs'][-1] % 7 else 0]
    if nstruct == 'diagonal':
        Pn = Pn * np.eye(D)                       # uncorrelated sensor noise of unequal power: an exactly diagonal noise PSD
    elif nstruct == 'white':
        Pn = np.eye(D) * np.trace(Pn, axis1=-2, axis2=-1).real[..., None, None] / D + 0j
    lvl = [1.0, 1.0, 1e-12, 1e-15, 1e9, 1.0][case['rs'][-1] % 6]
    # the overall level of a recording is free (quiet far-field recordings, un-normalised integer samples): both statistics carry it
    Px, Pn = Px * lvl, Pn * lvl
    variant = ['c', 'c', 'colmajor', 'real-target', 'fortran'][case['rs'][-1] % 5]
    if variant == 'colmajor':
        # (D, D) blocks stored column-major (e.g. the conjugate-transposed view of a C array, or a loadmat result)
        Px = np.ascontiguousarray(np.swapaxes(Px, -1, -2).conj()).swapaxes(-1, -2).conj()
        Pn = np.ascontiguousarray(np.swapaxes(Pn, -1, -2).conj()).swapaxes(-1, -2).conj()
    elif variant == 'fortran':
        Px, Pn = np.asfortranarray(Px), np.asfortranarray(Pn)
    elif variant == 'real-target':
        A = rng.standard_normal((*lead, D, max(1, case['rank'])))
        Px = np.einsum('...ab,...cb->...ac', A, A) * lvl      # real symmetric PSD target with a real dtype, complex noise PSD
    Px_before, Pn_before = Px.copy(), Pn.copy()
    info = dict(D=D, lead=list(lead), cond=case['cond'], rank=case['rank'], use_eig=case['use_eig'], impl='cython' if bf.c_gev_available else 'scipy', variant=variant)
    if not lead:
        Px1, Pn1 = Px[None], Pn[None]
    try:
        w = bf.get_gev_vector(Px, Pn, use_eig=case['use_eig'])
    except Exception as e:
        if not instr.is_library_exception(e):
            raise
        R.fail('C12.gev', 'gev/raised', f'get_gev_vector raised {type(e).__name__}: {str(e)[:100]}', **info)
        return
    R.check('C12.gev', np.array_equal(Px, Px_before) and np.array_equal(Pn, Pn_before), 'gev/inputs-overwritten', 'get_gev_vector overwrote its PSD arguments', **info)
    Px, Pn = Px_before, Pn_before
    if w.shape != Px.shape[:-1] or not np.isfinite(w).all():
        R.fail('C12.gev', 'gev/shape', f'shape {w.shape} for PSD {Px.shape}', **info)
        return
    Rw = quad(w, Px) / quad(w, Pn)
    l1, l2 = lam_max(Px, Pn)
    tol = 64 * np.finfo(float).eps * case['cond'] * 10 + 1e-10
    dv = float((np.abs(Rw - l1) / l1).max())
    agree = float((np.abs(l1 - l2) / l1).max())
    if agree > tol:
        R.undecided('C12.gev', 'the two reference eigenvalue computations disagree (ill-conditioned)')
        return
    R.check('C12.gev', dv <= tol, 'gev/rayleigh-equals-lambda-max', f'output SNR of the GEV vector deviates from the largest generalised eigenvalue by {dv:.3e} (relative)', dev=dv, **info)
    worst = 0.0
    for _ in range(10):
        v = gen.cnormal(rng, w.shape)
        worst = max(worst, float(((quad(v, Px) / quad(v, Pn) - Rw) / Rw).max()))
    # all other generalised eigenvectors
    for idx in np.ndindex(*lead):
        _, V = scipy.linalg.eigh(Px[idx], Pn[idx])
        for j in range(D - 1):
            v = V[:, j]
            worst = max(worst, float((quad(v, Px[idx]) / quad(v, Pn[idx]) - Rw[idx]) / Rw[idx]))
    R.check('C12.gev', worst <= tol, 'gev/not-exceeded-by-probe', f'a probe vector exceeds the GEV output SNR by {worst:.3e} (relative)', dev=worst, **info)
    # every other beamformer of the wrapper on the same PSDs (needs a frequency axis for Souden / WMWF reference estimation)
    if len(lead) == 1:
        for name in ('mvdr_souden', 'wmwf', 'pca', 'rank1_pca+mvdr_souden', 'rank1_gev+mvdr_souden', 'pca+mvdr', 'scaled_gev_atf+mvdr', 'rank1_pca+gev', 'ch0'):
            try:
                v = get_bf_vector(name, Px, Pn)
            except Exception as e:
                if not instr.is_library_exception(e):
                    raise
                R.count(f'other beamformer {name} raised {type(e).__name__}')
                continue
            den = quad(v, Pn)
            ok = den > 0
            if not ok.any():
                continue
            ex = float((((quad(v, Px)[ok] / den[ok]) - Rw[ok]) / Rw[ok]).max())
            R.check('C12.gev', ex <= tol, f'gev/exceeded-by/{name}', f'beamformer {name} has {ex:.3e} (relative) more output SNR than GEV', dev=ex, **info)
    # the vector obtained first is still the maximiser after all the other beamformers were computed (no result shares a buffer)
    Rw2 = quad(w, Px) / quad(w, Pn)
    dv2 = float((np.abs(Rw2 - l1) / l1).max())
    R.check('C12.gev', dv2 <= tol, 'gev/held-vector-changed', f'the GEV vector obtained first no longer attains lambda_max after other beamformers were computed (rel {dv2:.3e})', dev=dv2, **info)
    if lead or case['cond'] > 10:
        R.mark_nontrivial('gev', D, list(lead), int(np.log10(case['cond'])), case['use_eig'], case['rank'] < D)
    R.sample(dict(lane='gev', **info, rayleigh_dev=dv))


def run_pca(case, R):
    from pb_bss.extraction import get_pca_vector
    rng = gen.rng_of(case)
    D, lead = case['D'], tuple(case['lead'])
    P = psd_target(rng, D, lead, case['rank'], case.get('structure', 'dense')) + 1e-6 * np.eye(D)
    info = dict(D=D, lead=list(lead), rank=case['rank'])
    lam, V = np.linalg.eigh(P)
    top, lmax = V[..., -1], lam[..., -1]
    gap_ok = (lam[..., -1] - (lam[..., -2] if D > 1 else 0)) > 1e-8 * lam[..., -1]
    for scaling in (None, 'trace', 'eigenvalue'):
        try:
            w = get_pca_vector(P, scaling=scaling)
        except Exception as e:
            if not instr.is_library_exception(e):
                raise
            R.fail('C12.pca', f'pca/raised/{scaling}', f'{type(e).__name__}: {str(e)[:100]}', **info)
            continue
        if w.shape != P.shape[:-1]:
            R.fail('C12.pca', 'pca/shape', f'shape {w.shape}', **info)
            continue
        Rw = quad(w, P) / np.einsum('...a,...a->...', w.conj(), w).real
        dv = float((np.abs(Rw - lmax) / lmax).max())
        R.check('C12.pca', dv <= 1e-10, f'pca/rayleigh/{scaling}', f'PCA vector Rayleigh quotient deviates from lambda_max by {dv:.3e}', dev=dv, **info)
        factor = {None: np.ones_like(lmax), 'trace': np.sqrt(np.trace(P, axis1=-2, axis2=-1).real), 'eigenvalue': lmax}[scaling]
        nrm = np.linalg.norm(w, axis=-1)
        dn = float((np.abs(nrm - factor) / factor).max())
        R.check('C12.pca', dn <= 1e-10, f'pca/scaling/{scaling}', f'|w| deviates from the documented factor by {dn:.3e}', dev=dn, **info)
        c = np.abs(np.einsum('...a,...a->...', top.conj(), w)) / nrm
        if gap_ok.any():
            R.check('C12.pca', float(c[gap_ok].min()) >= 1 - 1e-8, f'pca/direction/{scaling}', f'PCA vector is not the principal eigenvector (|cos| {c[gap_ok].min():.10f})', **info)
    # the wrapper spelling of the same vector: get_bf_vector('pca', Phi, <noise>, scaling=...) forwards its options to get_pca_vector
    from pb_bss.extraction import get_bf_vector
    for scaling in ('trace', 'eigenvalue'):
        try:
            a = np.asarray(get_bf_vector('pca', P, P, scaling=scaling)); b = np.asarray(get_pca_vector(P, scaling=scaling))
            R.check('C12.pca', a.shape == b.shape and np.array_equal(a, b), f'pca/wrapper-options/{scaling}', f"get_bf_vector('pca', ..., scaling='{scaling}') is not get_pca_vector(..., scaling='{scaling}')", **info)
        except Exception as e:
            if not instr.is_library_exception(e):
                raise
            R.count(f"get_bf_vector('pca', scaling=) raised {type(e).__name__}")
    R.mark_nontrivial('pca', D, list(lead), case['rank'] < D)


def run_rank1(case, R):
    from pb_bss.extraction import beamformer_wrapper as bw
    rng = gen.rng_of(case)
    D, lead = case['D'], tuple(case['lead'])
    exact = case['rank'] == 1
    a = gen.cnormal(rng, (*lead, D))
    if case.get('structure') in ('sparse', 'deadmic'):
        a[..., 0 if rng.uniform() < 0.6 else int(rng.integers(D))] = 0          # steering vector with an exactly vanishing entry
    P = psd_target(rng, D, lead, case['rank'], case.get('structure', 'dense')) if not exact else np.einsum('...a,...b->...ab', a, a.conj()) * 10 ** rng.uniform(-2, 2)
    if lead and not exact and rng.uniform() < 0.3:
        # a mixed stack: the first matrix is exactly rank one, the others are not
        P = P.copy(); P[(0,) * len(lead)] = np.einsum('a,b->ab', a[(0,) * len(lead)], a[(0,) * len(lead)].conj())
    Pn = gen.hpd(rng, D, cond=min(case['cond'], 1e4), lead=lead)
    lvl = [1.0, 1.0, 1e-12, 1e-15, 1e9, 1.0][case['rs'][-1] % 6]
    P, Pn = P * lvl, Pn * lvl                     # the overall level of a recording is free
    info = dict(D=D, lead=list(lead), exact_rank_one=exact, level=lvl)
    for which in ('pca', 'pca:trace', 'pca:eigenvalue', 'gev', 'gev:use_eig'):
        try:
            if which.startswith('pca'):
                Q = bw.get_pca_rank_one_estimate(P, **({'scaling': which.split(':')[1]} if ':' in which else {}))
            else:
                Q = bw.get_gev_rank_one_estimate(P, Pn, **({'use_eig': True} if ':' in which else {}))
        except Exception as e:
            if not instr.is_library_exception(e):
                raise
            R.fail('C12.rank1', f'rank1/raised/{which}', f'{type(e).__name__}: {str(e)[:100]}', **info)
            continue
        if Q.shape != P.shape or not np.isfinite(Q).all():
            R.fail('C12.rank1', f'rank1/shape/{which}', f'shape {Q.shape}', **info)
            continue
        sc = float(np.abs(Q).max())
        R.check('C12.rank1', float(np.abs(Q - np.swapaxes(Q.conj(), -1, -2)).max()) <= 1e-12 * sc, f'rank1/hermitian/{which}', 'rank-one estimate not Hermitian', **info)
        sv = np.linalg.svd(Q, compute_uv=False)
        R.check('C12.rank1', bool((sv[..., 1] <= 1e-10 * sv[..., 0]).all()), f'rank1/rank/{which}', f'second singular value {float((sv[..., 1] / sv[..., 0]).max()):.3e} of the first', **info)
        tr = float((np.abs(np.trace(Q, axis1=-2, axis2=-1) - np.trace(P, axis1=-2, axis2=-1)) / np.abs(np.trace(P, axis1=-2, axis2=-1))).max())
        R.check('C12.rank1', tr <= 1e-10, f'rank1/trace/{which}', f'trace changed by {tr:.3e} (relative)', **info)
        if exact:
            lam, V = np.linalg.eigh(Q)
            c = np.abs(np.einsum('...a,...a->...', V[..., -1].conj(), a)) / np.linalg.norm(a, axis=-1)
            R.check('C12.rank1', float(c.min()) >= 1 - 1e-8, f'rank1/direction/{which}', f'steering direction of an exactly rank-one target not recovered (|cos| {c.min():.10f})', **info)
    R.mark_nontrivial('rank1', D, list(lead), exact)


def run_ban(case, R):
    from pb_bss.extraction import blind_analytic_normalization as ban
    rng = gen.rng_of(case)
    D, lead = case['D'], tuple(case['lead'])
    Pn = gen.hpd(rng, D, cond=case['cond'], lead=lead, scale=float(10 ** rng.uniform(-2, 2)))
    w = gen.cnormal(rng, (*lead, D)) * 10 ** rng.uniform(-3, 3)
    info = dict(D=D, lead=list(lead), cond=case['cond'])
    try:
        v = ban(w, Pn)
    except Exception as e:
        if not instr.is_library_exception(e):
            raise
        R.fail('C12.ban', 'ban/raised', f'{type(e).__name__}: {str(e)[:100]}', **info)
        return
    PP = np.einsum('...ab,...bc->...ac', Pn, Pn)
    factor = np.sqrt(quad(w, PP)) / quad(w, Pn)
    ref = w * factor[..., None]
    dv = float(np.abs(v - ref).max() / np.abs(ref).max())
    R.check('C12.ban', v.shape == w.shape and dv <= 1e-10, 'ban/factor', f'BAN result deviates from w sqrt(w^H Phi Phi w)/(w^H Phi w) by {dv:.3e}', dev=dv, **info)
    r1, r2 = quad(v, Pn), quad(w, Pn)
    Px = psd_target(rng, D, lead, 2)
    snr = float((np.abs(quad(v, Px) / r1 - quad(w, Px) / r2) / (quad(w, Px) / r2)).max())
    R.check('C12.ban', snr <= 1e-10, 'ban/snr-unchanged', f'BAN changes the output SNR by {snr:.3e}', **info)
    c = complex(10 ** rng.uniform(-3, 3) * np.exp(1j * rng.uniform(0, 6.28)))
    v2 = ban(w * c, Pn)
    inv = float(np.abs(v2 - v * (c / abs(c))).max() / np.abs(v).max())
    R.check('C12.ban', inv <= 1e-10, 'ban/magnitude-invariance', f'BAN result depends on the magnitude of its input ({inv:.3e})', **info)
    # the same clause for the normalisation as the wrapper applies it ('<name>+ban'): the result is the un-normalised vector of that
    # name times the positive real factor, whatever the scale the core beamformer happens to return (eigh and eig scale differently)
    from pb_bss.extraction import get_bf_vector
    Pt = psd_target(rng, D, lead, int(rng.integers(1, D + 1)))
    for name, kw in (('gev', dict(use_eig=False)), ('gev', dict(use_eig=True)), ('pca', {}), ('mvdr_souden', dict(ref_channel=0))):
        try:
            wc = np.asarray(get_bf_vector(name, Pt, Pn, **kw)); vb = np.asarray(get_bf_vector(name + '+ban', Pt, Pn, **kw))
        except Exception as e:
            if not instr.is_library_exception(e):
                raise
            R.count(f'wrapper {name}+ban raised {type(e).__name__}')
            continue
        # the factor itself is checked above on generic vectors; beamforming vectors concentrate on the weak noise directions, where
        # w^H Phi w cancels and an independently evaluated factor differs by cond * eps - so the factor is taken from the (checked) routine
        refb = np.asarray(ban(wc, Pn))
        ok = np.isfinite(refb).all() and np.abs(refb).max() > 0
        if not ok:
            continue
        dvb = float(np.abs(vb - refb).max() / np.abs(refb).max()) if vb.shape == refb.shape else np.inf
        tag = name + (':use_eig' if kw.get('use_eig') else '')
        R.check('C12.ban', dvb <= 1e-12, f'ban/wrapper-factor/{tag}', f"get_bf_vector('{name}+ban') is not the '{name}' vector times sqrt(w^H Phi Phi w)/(w^H Phi w) (rel {dvb:.3e})", dev=dvb, **info)
    R.mark_nontrivial('ban', D, list(lead), int(np.log10(case['cond'])))

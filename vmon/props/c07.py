"""C07 - log_pdf is the logarithm of the named, normalised density."""
import math

import numpy as np
import scipy.stats

from vmon import gen, instr, oracles

from vmon.scale import S

ID = 'C07'
RULE = ('cases = (family x dimension x leading axes x parameter class) evaluations of the real log_pdf against an '
        'independent closed form / scipy.stats / high-precision value, plus quadrature and Monte-Carlo integrals of '
        'exp(log_pdf) over the sphere; non-trivial = non-diagonal covariance or non-degenerate concentration and '
        'evaluation points away from the mode; distinct by (family, D, lead, parameter class)')
DECIDING = ['C07.gauss', 'C07.diag', 'C07.spher', 'C07.ccsg', 'C07.vmf', 'C07.watson', 'C07.bingham', 'C07.cacg', 'C07.integral']
MIN_DECIDED = {'quick': 200, 'thorough': 2000}
ARM = ()
ASSUMPTIONS = ['scipy.stats.multivariate_normal / vonmises_fisher, scipy.special.gammainc, numpy.linalg.inv/slogdet and 160-digit decimal arithmetic are correct']
FAMS = ['gauss', 'diag', 'spher', 'ccsg', 'vmf', 'watson', 'bingham', 'cacg']
LEADS = [[], [1], [3], [2, 3]]


def plan(tier, seed):
    rng = np.random.default_rng([seed, 107])
    cases = []
    n = S(tier, 40, 400)
    i = 0
    for fam in FAMS:
        for r in range(n if fam != 'bingham' else n // 2):
            if fam in ('gauss', 'diag', 'spher'):
                D = int(rng.integers(1, 9))
            elif fam == 'ccsg':
                D = int(rng.integers(1, 9))
            elif fam == 'vmf':
                D = int(rng.integers(1, 9))          # D = 1: the two-point sphere {-1, +1}
            else:
                D = int(rng.integers(2, 7))
            lead = LEADS[int(rng.integers(0, len(LEADS)))]
            if r % 4 == 0:
                lead = [int(rng.integers(2, 5))]      # a class-like axis is always covered
            cases.append(dict(lane='value', fam=fam, D=D, lead=lead, N=int(rng.integers(1, 12)),
                              cond=float(10 ** rng.uniform(0, 8)), kappa=float(10 ** rng.uniform(-6, math.log10(500))),
                              cluster=['spread', 'clustered', 'mixed'][int(rng.integers(0, 3))], rs=[seed, 7, i]))
            i += 1
    m = S(tier, 8, 60)
    for fam in ('vmf', 'watson', 'bingham', 'cacg', 'gauss1d', 'ccsg1d'):
        for r in range(m):
            cases.append(dict(lane='integral', fam=fam, D=int(rng.integers(2, 4)) if fam != 'cacg' else int(rng.integers(2, 6)),
                              kappa=float(10 ** rng.uniform(-3, 1.5)), cond=float(10 ** rng.uniform(0, 1.5)), rs=[seed, 8, i]))
            i += 1
    return cases


def run_case(case, R):
    with instr.fp_guard():
        if case['lane'] == 'value':
            globals()['v_' + case['fam']](case, R)
        else:
            globals()['i_' + case['fam']](case, R)


def _cmp(R, mon, got, ref, tol, key, case, **info):
    got = np.asarray(got)
    if got.shape != ref.shape:
        R.fail(mon, key + '/shape', f'log_pdf shape {got.shape} != {ref.shape}', **info)
        return False
    if not np.isfinite(got).all():
        R.fail(mon, key + '/nonfinite', 'log_pdf non-finite for valid parameters', **info)
        return False
    err = np.abs(got - ref)
    bad = err > tol
    dev = float(err.max()) if err.size else 0.0
    return R.check(mon, not bad.any(), key + '/value', f'log_pdf deviates from the reference density by {dev:.3e} (tol {float(np.max(tol)):.1e})',
                   dev=dev, D=case['D'], lead=case['lead'], **info)


def _sig(R, case, extra=None):
    R.mark_nontrivial(case['lane'], case['fam'], case['D'], case.get('lead'), extra)


# -- Gaussians --------------------------------------------------------------------------------------

def v_gauss(case, R):
    from pb_bss.distribution import Gaussian
    rng = gen.rng_of(case)
    D, lead, N = case['D'], tuple(case['lead']), case['N']
    cov = gen.hpd(rng, D, cond=case['cond'], lead=lead, real=True, scale=float(10 ** rng.uniform(-2, 2)))
    mean = rng.standard_normal((*lead, D)) * 3
    L = np.linalg.cholesky(cov)
    x = mean[..., None, :] + np.einsum('...ab,...nb->...na', L, rng.standard_normal((*lead, N, D))) * 2
    try:
        g = Gaussian(mean=mean, covariance=cov)
        got = g.log_pdf(x)
    except Exception as e:
        if not instr.is_library_exception(e):
            raise
        R.fail('C07.gauss', 'gaussian-full/raised', f'Gaussian.log_pdf raised {type(e).__name__}: {e}'[:200], D=D, lead=list(lead))
        return
    ref = np.empty((*lead, N))
    for idx in np.ndindex(*lead):
        ref[idx] = np.atleast_1d(scipy.stats.multivariate_normal(mean[idx], cov[idx]).logpdf(x[idx]))
    tol = 200 * np.finfo(float).eps * case['cond'] * max(D, 1) * (1 + np.abs(ref)) + 1e-12      # (50 was exceeded by 1.2x once in 1e5 thorough cases: a rounding model, not a bound)
    offdiag = float(np.abs(cov - np.einsum('...ii->...i', cov)[..., None] * np.eye(D)).max()) if D > 1 else 0.0
    if _cmp(R, 'C07.gauss', got, ref, tol, 'gaussian-full', case, cond=case['cond']) and offdiag > 1e-3:
        _sig(R, case, 'nondiag')
    R.sample(dict(fam='gauss', D=D, lead=list(lead), cond=case['cond'], offdiag=offdiag, ref0=float(ref.ravel()[0]), got0=float(np.asarray(got).ravel()[0])))


def v_diag(case, R):
    from pb_bss.distribution import DiagonalGaussian
    rng = gen.rng_of(case)
    D, lead, N = case['D'], tuple(case['lead']), case['N']
    var = 10 ** rng.uniform(-2, 2, size=(*lead, D))
    mean = rng.standard_normal((*lead, D)) * 3 * 10 ** rng.choice([0, 0, 3, 6])       # also |mean| / std up to ~1e7
    x = mean[..., None, :] + rng.standard_normal((*lead, N, D)) * np.sqrt(var)[..., None, :] * 2
    try:
        got = DiagonalGaussian(mean=mean, covariance=var).log_pdf(x)
    except Exception as e:
        if not instr.is_library_exception(e):
            raise
        R.fail('C07.diag', 'gaussian-diagonal/raised', f'DiagonalGaussian log_pdf raised {type(e).__name__}: {e}'[:200], D=D, lead=list(lead))
        return
    ref = (-0.5 * np.log(2 * np.pi * var)[..., None, :] - 0.5 * (x - mean[..., None, :]) ** 2 / var[..., None, :]).sum(-1)
    # x - mean is exact to one rounding of x: the Mahalanobis term carries a relative error of eps |x| / |x - mean|
    cancel = float((np.abs(x) / np.maximum(np.abs(x - mean[..., None, :]), 1e-300)).max())
    if _cmp(R, 'C07.diag', got, ref, (1e-10 + 64 * np.finfo(float).eps * min(cancel, 1e9)) * (1 + np.abs(ref)), 'gaussian-diagonal', case):
        _sig(R, case)


def v_spher(case, R):
    from pb_bss.distribution import SphericalGaussian
    rng = gen.rng_of(case)
    D, lead, N = case['D'], tuple(case['lead']), case['N']
    var = 10 ** rng.uniform(-2, 2, size=lead)
    mean = rng.standard_normal((*lead, D)) * 3 * 10 ** rng.choice([0, 0, 3, 6])
    x = mean[..., None, :] + rng.standard_normal((*lead, N, D)) * np.sqrt(var)[..., None, None] * 2
    try:
        got = SphericalGaussian(mean=mean, covariance=np.asarray(var)).log_pdf(x)
    except Exception as e:
        if not instr.is_library_exception(e):
            raise
        R.fail('C07.spher', 'gaussian-spherical/raised', f'SphericalGaussian log_pdf raised {type(e).__name__}: {e}'[:200], D=D, lead=list(lead))
        return
    ref = -0.5 * D * np.log(2 * np.pi * var)[..., None] - 0.5 * ((x - mean[..., None, :]) ** 2).sum(-1) / np.asarray(var)[..., None]
    cancel = float((np.abs(x) / np.maximum(np.abs(x - mean[..., None, :]), 1e-300)).max())
    if _cmp(R, 'C07.spher', got, ref, (1e-10 + 64 * np.finfo(float).eps * min(cancel, 1e9)) * (1 + np.abs(ref)), 'gaussian-spherical', case):
        _sig(R, case)


def v_ccsg(case, R):
    from pb_bss.distribution import ComplexCircularSymmetricGaussian
    rng = gen.rng_of(case)
    D, lead, N = case['D'], tuple(case['lead']), case['N']
    cond = min(case['cond'], 1e6)
    # any overall power level: a covariance of a quiet recording is as valid as one of O(1) (the evaluation points follow the level)
    scale = float(10 ** (rng.uniform(-2, 2) if rng.uniform() < 0.5 else rng.uniform(-14, 14)))
    cov = gen.hpd(rng, D, cond=cond, lead=lead, scale=scale)
    x = gen.cnormal(rng, (*lead, N, D)) * 2 * np.sqrt(scale)
    try:
        got = ComplexCircularSymmetricGaussian(covariance=cov).log_pdf(x)
    except Exception as e:
        if not instr.is_library_exception(e):
            raise
        R.fail('C07.ccsg', 'complex-gaussian/raised', f'log_pdf raised {type(e).__name__}: {e}'[:200], D=D, lead=list(lead))
        return
    ref = oracles.ccsg_log_pdf(x, cov)
    tol = 50 * np.finfo(float).eps * cond * max(D, 1) * (1 + np.abs(ref)) + 1e-12
    if _cmp(R, 'C07.ccsg', got, ref, tol, 'complex-gaussian', case):
        _sig(R, case)


# -- vMF ------------------------------------------------------------------------------------------------

def v_vmf(case, R):
    from pb_bss.distribution import VonMisesFisher
    rng = gen.rng_of(case)
    D, lead, N = case['D'], tuple(case['lead']), case['N']
    mean = oracles.unit(rng.standard_normal((*lead, D)))
    kappa = 10 ** rng.uniform(-6, math.log10(500), size=lead)
    if case['rs'][-1] % 5 == 0:
        kappa = rng.integers(1, 500, size=lead)            # integer-valued concentrations in an integer array are valid parameters too
    single = case['rs'][-1] % 7 == 3
    if single:
        # parameters stored in single precision (a model fitted to float32 embeddings): valid parameters, evaluated in their own precision
        kappa = np.asarray(10 ** rng.uniform(0, math.log10(500), size=lead), dtype=np.float32)
        mean = mean.astype(np.float32)
    x = rng.standard_normal((*lead, N, D)) * 10 ** rng.uniform(-3, 3, size=(*lead, N, 1))   # any positive length
    # include mode / antipode / orthogonal directions
    if N >= 3:
        x[..., 0, :] = mean
        x[..., 1, :] = -mean
    try:
        got = VonMisesFisher(mean=mean, concentration=np.asarray(kappa)).log_pdf(x)
    except Exception as e:
        if not instr.is_library_exception(e):
            raise
        R.fail('C07.vmf', 'vmf/raised', f'log_pdf raised {type(e).__name__}: {e}'[:200], D=D, lead=list(lead))
        return
    ref = np.empty((*lead, N))
    for idx in np.ndindex(*lead):
        if D == 1:
            # the sphere S^0 = {-1, +1} with counting measure: p(x) = exp(kappa mu x) / (2 cosh kappa)
            kk = float(np.asarray(kappa)[idx])
            ref[idx] = kk * np.sign(x[idx][..., 0]) * mean[idx][0] - (kk + np.log1p(np.exp(-2 * kk)))
            continue
        ref[idx] = np.atleast_1d(oracles.vmf_log_pdf(oracles.unit(x[idx]), oracles.unit(mean[idx].astype(np.float64)), np.asarray(kappa, dtype=np.float64)[idx]))
    # single-precision parameters: kappa * cos and the normaliser carry a relative error of float32 eps at magnitude kappa
    if _cmp(R, 'C07.vmf', got, ref, (1e-9 if not single else 2e-6 * (1 + float(np.max(kappa)))) * (1 + np.abs(ref)), 'vmf', case, **({'dtype': 'float32'} if single else {})):
        _sig(R, case)
    if D == 3 and not single:
        k = np.asarray(kappa)
        closed = np.log(k / (4 * np.pi * np.sinh(np.minimum(k, 700)))) if np.all(k < 700) else None
        if closed is not None:
            got_mode = np.asarray(got)[..., 0] - k if N >= 3 else None
            if got_mode is not None:
                dev = float(np.abs(got_mode - closed).max())
                R.check('C07.vmf', dev <= 1e-9 * (1 + float(np.abs(closed).max())), 'vmf/closed-form-D3', f'vMF D=3 normaliser deviates from kappa/(4 pi sinh kappa) by {dev:.2e}')


# -- complex Watson ------------------------------------------------------------------------------------

def v_watson(case, R):
    from pb_bss.distribution import ComplexWatson
    rng = gen.rng_of(case)
    D, lead, N = case['D'], tuple(case['lead']), case['N']
    mode = oracles.unit(gen.cnormal(rng, (*lead, D)))
    kappa = 10 ** rng.uniform(-6, math.log10(500), size=lead)
    z = oracles.unit(gen.cnormal(rng, (*lead, N, D)))
    if N >= 2:
        z[..., 0, :] = mode * np.exp(1j * 0.7)
    try:
        got = ComplexWatson(mode=mode, concentration=np.asarray(kappa)).log_pdf(z)
    except Exception as e:
        if not instr.is_library_exception(e):
            raise
        R.fail('C07.watson', 'watson/raised', f'log_pdf raised {type(e).__name__}: {e}'[:200], D=D, lead=list(lead))
        return
    ref = oracles.watson_log_pdf(z, mode, np.asarray(kappa))
    if _cmp(R, 'C07.watson', got, ref, 1e-9 * (1 + np.abs(ref)), 'watson', case):
        _sig(R, case)


# -- complex Bingham -----------------------------------------------------------------------------------

def _bingham_eigs(rng, D, cluster):
    if cluster == 'spread':
        lam = -np.sort(rng.uniform(0, 60, size=D))
    elif cluster == 'clustered':
        base = -rng.uniform(0, 30)
        lam = base - np.cumsum(10 ** rng.uniform(-3, -1, size=D))
    else:
        lam = -np.sort(rng.uniform(0, 40, size=D))
        j = int(rng.integers(0, D - 1))
        lam[j + 1] = lam[j] - 10 ** rng.uniform(-3, -1)
        lam = -np.sort(-lam)
    lam = lam - lam.max()
    # enforce pairwise gaps >= 1e-3
    s = np.sort(lam)
    for i in range(1, D):
        if s[i] - s[i - 1] < 1e-3:
            s[i] = s[i - 1] + 1e-3
    s = s - s.max()
    return rng.permutation(s)


def v_bingham(case, R):
    from pb_bss.distribution.complex_bingham import ComplexBingham
    rng = gen.rng_of(case)
    D, lead, N = case['D'], tuple(case['lead']), case['N']
    U = gen.random_unitary(rng, D, lead)
    lam = np.empty((*lead, D))
    shifted = rng.uniform() < 0.5
    for idx in np.ndindex(*lead):
        lam[idx] = _bingham_eigs(rng, D, case['cluster'])
        if shifted:
            # the density on the sphere is invariant to a common shift of the eigenvalues, so sets at any level are valid parameters
            # (a different level for every member of a stack); everything stays within +-500
            lam[idx] = lam[idx] + rng.uniform(-430, 490)
    z = oracles.unit(gen.cnormal(rng, (*lead, N, D)))
    try:
        model = ComplexBingham(covariance_eigenvectors=U, covariance_eigenvalues=lam.copy())
        first = np.asarray(model.log_pdf(z))
        got = np.asarray(model.log_pdf(z))              # second evaluation on the same object
        R.check('C07.bingham', np.array_equal(first, got, equal_nan=True) and np.array_equal(np.asarray(model.covariance_eigenvalues), lam),
                'bingham/evaluation-changes-the-model', 'a second log_pdf call on the same ComplexBingham object differs from the first (stored parameters changed)', D=D)
        got = first
    except Exception as e:
        if not instr.is_library_exception(e):
            raise
        R.fail('C07.bingham', 'bingham/raised', f'log_pdf raised {type(e).__name__}: {e}'[:200], D=D, lead=list(lead))
        return
    if got.shape != (*lead, N):
        R.fail('C07.bingham', 'bingham/shape', f'shape {got.shape}')
        return
    for idx in np.ndindex(*lead):
        amp = oracles.bingham_cancellation(lam[idx])
        ref = oracles.bingham_log_pdf(z[idx], U[idx], lam[idx])
        g = got[idx]
        dev = float(np.abs(g - ref).max()) if np.isfinite(g).all() else float('inf')
        # exponent z^H A z alone (normaliser-free): class-to-class differences of points
        ok = dev <= 1e-6
        if amp >= 1e6:
            key = 'bingham/normaliser/cancellation-amplification>=1e6'
        else:
            key = 'bingham/value'
        R.check('C07.bingham', ok, key, f'ComplexBingham.log_pdf deviates from the high-precision density by {dev:.3e} (cancellation amplification {amp:.2e})',
                dev=dev, amp=amp, eigenvalues=lam[idx], D=D)
        if amp < 1e6:
            _sig(R, case, case['cluster'])
    R.sample(dict(fam='bingham', D=D, lead=list(lead), cluster=case['cluster'], eig0=lam.reshape(-1, D)[0].tolist()))


# -- cACG ------------------------------------------------------------------------------------------------

def v_cacg(case, R):
    from pb_bss.distribution import ComplexAngularCentralGaussian
    rng = gen.rng_of(case)
    D, lead, N = case['D'], tuple(case['lead']), case['N']
    cond = min(case['cond'], 1e8)
    U = gen.random_unitary(rng, D, lead)
    lam = np.exp(rng.uniform(-math.log(cond), 0, size=(*lead, D)))
    lam[..., 0] = 1.0
    if rng.uniform() < 0.5:
        # un-normalised covariances (covariance_norm=False) of any scale: the cACG density does not depend on the scale of its matrix
        lam = lam * 10 ** rng.uniform(*((-14, 6) if rng.uniform() < 0.5 else (-60, 60)), size=(*lead, 1))
    y = gen.cnormal(rng, (*lead, N, D)) * 10 ** rng.uniform(-50, 50, size=(*lead, N, 1))
    try:
        got = ComplexAngularCentralGaussian(covariance_eigenvectors=U, covariance_eigenvalues=lam).log_pdf(y)
    except Exception as e:
        if not instr.is_library_exception(e):
            raise
        R.fail('C07.cacg', 'cacg/raised', f'log_pdf raised {type(e).__name__}: {e}'[:200], D=D, lead=list(lead))
        return
    B = np.einsum('...ab,...b,...cb->...ac', U, lam, U.conj())
    ref = oracles.cacg_log_pdf(y, B)
    tol = 100 * np.finfo(float).eps * cond * (1 + np.abs(ref)) + 1e-10
    if _cmp(R, 'C07.cacg', got, ref, tol, 'cacg', case):
        _sig(R, case)


# -- integrals -----------------------------------------------------------------------------------------

def _gl(n, a=0.0, b=1.0):
    x, w = np.polynomial.legendre.leggauss(n)
    return (b - a) / 2 * x + (a + b) / 2, (b - a) / 2 * w


def _judge_integral(R, key, val, err, case, **info):
    R.check('C07.integral', abs(val - 1) <= err, key, f'integral of exp(log_pdf) = {val:.9f} (allowed error {err:.1e})', val=val, D=case['D'], **info)
    R.mark_nontrivial('integral', case['fam'], case['D'], round(math.log10(case['kappa']), 0))


def i_vmf(case, R):
    from pb_bss.distribution import VonMisesFisher
    rng = gen.rng_of(case)
    D = case['D']
    kappa = case['kappa']
    mean = oracles.unit(rng.standard_normal(D))
    Q = gen.random_orthogonal(rng, D)
    if D == 2:
        th = np.linspace(0, 2 * np.pi, 4001)[:-1]
        x = np.stack([np.cos(th), np.sin(th)], -1)
        lp = VonMisesFisher(mean=mean, concentration=np.asarray(kappa)).log_pdf(x)
        val = float(np.exp(lp).mean() * 2 * np.pi)
    else:
        t, wt = _gl(200, -1, 1)
        ph = np.linspace(0, 2 * np.pi, 65)[:-1]
        T, P = np.meshgrid(t, ph, indexing='ij')
        s = np.sqrt(1 - T ** 2)
        x = np.stack([s * np.cos(P), s * np.sin(P), T], -1).reshape(-1, 3) @ Q.T
        lp = VonMisesFisher(mean=mean, concentration=np.asarray(kappa)).log_pdf(x).reshape(T.shape)
        val = float((np.exp(lp).mean(axis=1) * 2 * np.pi * wt).sum())
    _judge_integral(R, 'integral/vmf', val, 1e-7, case, kappa=kappa)


def i_watson(case, R):
    """Under the uniform law on the complex unit sphere t = |w^H z|^2 ~ Beta(1, D-1): integrate the real log_pdf
    evaluated at z(t) = sqrt(t) w + sqrt(1-t) w_perp over t by Gauss-Legendre."""
    from pb_bss.distribution import ComplexWatson
    rng = gen.rng_of(case)
    D, kappa = case['D'], case['kappa']
    U = gen.random_unitary(rng, D)
    w, wp = U[:, 0], U[:, 1]
    t, wt = _gl(400)
    z = np.sqrt(t)[:, None] * w + np.sqrt(1 - t)[:, None] * wp * np.exp(1j * rng.uniform(0, 6.28, size=(len(t), 1)))
    lp = ComplexWatson(mode=w, concentration=np.asarray(kappa)).log_pdf(z)
    dens_t = (D - 1) * (1 - t) ** (D - 2)
    val = float((np.exp(lp + oracles.log_sphere_area_complex(D)) * dens_t * wt).sum())
    _judge_integral(R, 'integral/watson', val, 1e-8, case, kappa=kappa)


def i_bingham(case, R):
    """|z_d|^2 in the eigenbasis is Dirichlet(1,..,1) under the uniform law: quadrature over the simplex of the
    real log_pdf at z = U sqrt(s) e^{i phi}."""
    from pb_bss.distribution.complex_bingham import ComplexBingham
    rng = gen.rng_of(case)
    D = case['D']
    U = gen.random_unitary(rng, D)
    lam = -np.sort(rng.uniform(0.5, 8, size=D)) * np.arange(D)
    lam = lam - lam.max()
    if np.min(np.diff(np.sort(lam))) < 0.05:
        lam = -np.arange(D) * 1.5
    model = ComplexBingham(covariance_eigenvectors=U, covariance_eigenvalues=lam.copy())
    area = oracles.log_sphere_area_complex(D)
    if D == 2:
        t, wt = _gl(300)
        S = np.stack([t, 1 - t], -1)
        W = wt
    else:
        # s1 = a, s2 = (1-a) b, s3 = (1-a)(1-b); Dirichlet(1,1,1) density 2 on the simplex, jacobian (1-a)
        a, wa = _gl(120)
        b, wb = _gl(120)
        A, Bb = np.meshgrid(a, b, indexing='ij')
        S = np.stack([A, (1 - A) * Bb, (1 - A) * (1 - Bb)], -1).reshape(-1, 3)
        W = (2 * (1 - A) * wa[:, None] * wb[None, :]).reshape(-1)
    ph = np.exp(1j * rng.uniform(0, 6.28, size=S.shape))
    z = (np.sqrt(S) * ph) @ U.T
    lp = model.log_pdf(z)
    val = float((np.exp(lp + area) * W).sum())
    _judge_integral(R, 'integral/bingham', val, 1e-7, case, eigenvalues=lam)


def i_cacg(case, R):
    from pb_bss.distribution import ComplexAngularCentralGaussian
    rng = gen.rng_of(case)
    D = case['D']
    cond = case['cond']
    U = gen.random_unitary(rng, D)
    lam = np.exp(rng.uniform(-math.log(cond), 0, size=D)); lam[0] = 1.0; lam[-1] = 1 / cond
    model = ComplexAngularCentralGaussian(covariance_eigenvectors=U, covariance_eigenvalues=lam)
    if D == 2:
        t, wt = _gl(200)
        ph = np.linspace(0, 2 * np.pi, 201)[:-1]
        T, P = np.meshgrid(t, ph, indexing='ij')
        z = np.stack([np.sqrt(T) + 0j, np.sqrt(1 - T) * np.exp(1j * P)], -1).reshape(-1, 2)
        lp = model.log_pdf(z).reshape(T.shape)
        val = float((np.exp(lp).mean(axis=1) * wt).sum())
        _judge_integral(R, 'integral/cacg', val, 1e-7, case, cond=cond)
    else:
        n = 400000
        z = oracles.unit(gen.cnormal(rng, (n, D)))
        p = np.exp(model.log_pdf(z))
        val = float(p.mean())
        se = float(p.std() / math.sqrt(n))
        _judge_integral(R, 'integral/cacg-mc', val, 6 * se + 1e-3, case, cond=cond, stderr=se)


def i_gauss1d(case, R):
    from pb_bss.distribution import Gaussian, DiagonalGaussian, SphericalGaussian
    rng = gen.rng_of(case)
    var = float(10 ** rng.uniform(-1, 1))
    mu = float(rng.standard_normal())
    x, w = _gl(2000, mu - 12 * math.sqrt(var), mu + 12 * math.sqrt(var))
    for name, model in (('full', lambda: Gaussian(mean=np.array([mu]), covariance=np.array([[var]]))),
                        ('diagonal', lambda: DiagonalGaussian(mean=np.array([mu]), covariance=np.array([var]))),
                        ('spherical', lambda: SphericalGaussian(mean=np.array([mu]), covariance=np.array(var)))):
        try:
            lp = model().log_pdf(x[:, None])
        except Exception as e:
            if not instr.is_library_exception(e):
                raise
            R.fail('C07.integral', f'integral/gaussian-{name}/raised', f'{type(e).__name__}: {e}'[:200])
            continue
        val = float((np.exp(np.asarray(lp).reshape(-1)) * w).sum()) if np.asarray(lp).size == len(x) else float('nan')
        R.check('C07.integral', abs(val - 1) <= 1e-8, f'integral/gaussian-{name}', f'1-D integral of exp(log_pdf) = {val}', val=val)
    R.mark_nontrivial('integral', 'gauss1d', round(var, 1))


def i_ccsg1d(case, R):
    from pb_bss.distribution import ComplexCircularSymmetricGaussian
    rng = gen.rng_of(case)
    var = float(10 ** rng.uniform(-1, 1))
    r, wr = _gl(2000, 0, 12 * math.sqrt(var))
    lp = ComplexCircularSymmetricGaussian(covariance=np.array([[var + 0j]])).log_pdf((r + 0j)[:, None])
    val = float((np.exp(lp) * 2 * np.pi * r * wr).sum())
    R.check('C07.integral', abs(val - 1) <= 1e-8, 'integral/complex-gaussian', f'integral over C of exp(log_pdf) = {val}', val=val)
    R.mark_nontrivial('integral', 'ccsg1d', round(var, 1))

"""C02 - EM iterations never decrease the mixture log-likelihood."""
import numpy as np

from vmon import gen, instr, models, mstep, oracles, scen

from vmon.scale import S

ID = 'C02'
RULE = ('cases = EM trajectories (cACGMM, cWMM, GMM full/diagonal/spherical, GCACGMM with unit stream weights) on planted '
        'overlapping mixtures with N >= 4KD per slice and strictly positive starts; the hook reports every in-loop model, the '
        'monitor evaluates L = sum_n s_n logsumexp_k(log pi_k + log p_k(y_n)) from public fields and compares with the previous '
        'value on the longest guard-free prefix; non-trivial = >= 3 guard-free iterations and total gain > 1e-6 N; distinct by '
        '(kind, options, K, D, lead)')
DECIDING = ['C02.monotone', 'C02.loglik-method', 'C02.hook-twin']
MIN_DECIDED = {'quick': 80, 'thorough': 800}
NEEDS_HOOK = True
ASSUMPTIONS = ['the component log_pdf methods are the densities (checked separately by C07)',
               'monotonicity is demanded only while no numerical guard is active, as the property states']
CASE_TIMEOUT = {'quick': 180, 'thorough': 600}
KINDS = ['cacgmm', 'cwmm', 'gmm', 'gcacgmm']


def plan(tier, seed):
    rng = np.random.default_rng([seed, 102])
    n = S(tier, 28, 260)
    cases = []
    i = 0
    pick = lambda xs: xs[int(rng.integers(len(xs)))]
    for kind in KINDS:
        for r in range(n if kind != 'gcacgmm' else 2 * n):
            K = int(rng.integers(2, 5)) if kind in ('cacgmm',) or r % 5 else 1
            if kind == 'cacgmm':
                K = max(2, K)
            D = int(rng.integers(2, 7))
            if kind == 'gcacgmm':
                lead = [pick([1, 2, 3])]
            else:
                lead = pick([[], [1], [3], [2, 2]])
            N = 4 * K * D + int(rng.integers(0, 3 * K * D))
            o = {}
            if kind == 'gcacgmm':
                o['wca'] = pick(scen.WCA['integration'])
                o['spatial_weight'] = 1.0
                o['spectral_weight'] = 1.0
            elif lead:
                o['wca'] = pick(scen.WCA['plain_lead'] + [-2] * 0)
            else:
                o['wca'] = pick(scen.WCA['plain_nolead'])
            if kind != 'gcacgmm' and len(o['wca']) == 1 and rng.uniform() < 0.3:
                o['wca_int'] = True          # plain-int spelling of the tied axis
            o['saliency'] = pick(['none', 'pos', 'wide', 'wide', 'int', 'tiny'] + (['tiny'] * 2 if kind == 'cwmm' else []))
            o['saliency_slice_scale'] = bool(rng.integers(0, 2))
            tied = bool(lead) and -3 in o['wca']
            if tied and rng.uniform() < 0.6:
                # weights tied across slices: the slices' saliency totals must enter the pooled weight update
                o['saliency'] = pick(['pos', 'wide'])
                o['saliency_slice_scale'] = 'all'
            if kind in ('cacgmm', 'gcacgmm'):
                o['covariance_norm'] = pick(['eigenvalue', 'trace', False])
                o['hermitize'] = pick([True, True, False])
                o['affiliation_eps'] = pick([0.0, 0.0, 1e-10])
            if kind in ('gmm', 'gcacgmm'):
                o['covariance_type'] = pick(['full', 'diagonal', 'spherical'])
                if kind == 'gmm' and rng.uniform() < 0.1:
                    o['fixed_covariance'] = True
            iters = (8 if r % 3 else 15) if tier == 'quick' else int(pick([10, 20, 50]))
            if kind == 'gcacgmm' and tier == 'quick':
                iters = 15 if r % 3 else 25
            if tied and o['saliency_slice_scale'] == 'all':
                iters = max(iters, 20)
            if o['saliency'] == 'tiny':
                iters = max(iters, 25)      # class masses have to cross the library's absolute guards (1e-10) on the way
            cases.append(dict(kind=kind, cls=pick(['gauss', 'gauss', 'gauss', 'outlier']) if kind in ('gmm', 'gcacgmm') else 'gauss', K=K, N=N, D=D, lead=lead, spread=float(pick([0.5, 1.0, 1.5, 3.0])), offset=float(pick([0, 0, 1e4, 3e6])) if kind in ('gmm', 'gcacgmm') else 0.0, layout=pick(['c', 'c', 'f', 'tview']), level=float(pick([1.0, 1.0, 1e-3, 1e3, 1e-5])) if kind in ('gmm', 'gcacgmm') else 1.0, init=pick(['dirichlet:1', 'dirichlet:10', 'blur:0.5', 'dirichlet:0.3']),
                              iters=iters, opts=o, rs=[seed, 2, i]))
            if kind not in models.REAL and r % 4 == 1:
                cases[-1]['norms'] = 'subunit'
            i += 1
    return cases


def loglik(s, model):
    lp = models.component_log_pdf(s.kind, model, s.data)
    lw = models.log_weight(s.kind, model, s.K)
    return oracles.mixture_log_likelihood(lw, lp, s.saliency)


def guard_state(s, model, event=None):
    """names of numerical guards that are active in this model (C02 restricts the claim to none)."""
    g_ = []
    if s.kind in ('cacgmm', 'gcacgmm'):
        lam = np.asarray(model.cacg.covariance_eigenvalues)
        floor = s.copts.get('eigenvalue_floor', 1e-10)
        if s.copts.get('covariance_norm', 'eigenvalue') == 'eigenvalue':
            if lam.min() < 1e4 * floor:
                g_.append('cacg-eigenvalue-near-floor')
        else:
            if (lam.min(axis=-1) < 1e4 * floor * lam.max(axis=-1)).any():
                g_.append('cacg-eigenvalue-near-floor')
    if s.kind == 'cwmm':
        k = np.asarray(model.complex_watson.concentration)
        if (k <= 0).any() or (k >= s.tkw.get('max_concentration', 500) * (1 - 1e-9)).any():
            g_.append('watson-concentration-clipped')
    if s.kind in ('gmm', 'gcacgmm'):
        # likelihood singularity of Gaussian mixtures: a component collapsing onto a single observation has its variance limited
        # by the rounding of x - mean (~ eps^2 |x|^2); from there on the arithmetic, not EM, decides the likelihood.  Whether a
        # component HAS collapsed is decided from the posteriors the M-step was given (two-pass weighted variance computed
        # here), not from the covariance the library reports: a wrong variance must not be able to declare itself a guard.
        x = np.asarray(s.data['e'] if s.kind == 'gcacgmm' else s.data['y'], dtype=float)
        ref = float(np.median(np.var(x, axis=-2)))      # spread of the observations per slice and coordinate (offsets excluded)
        ctype = {'Gaussian': 'full', 'DiagonalGaussian': 'diagonal', 'SphericalGaussian': 'spherical'}[type(model.gaussian).__name__]
        cov = None
        if event is not None and s.opts.get('fixed_covariance') is None:
            g = np.asarray(event['affiliation'], dtype=float)
            if s.saliency is not None:
                g = g * np.asarray(s.saliency, dtype=float)[..., None, :]
            if s.kind == 'gcacgmm':          # one Gaussian per class for all frequencies: 'fkt->k,ft'
                g = np.moveaxis(g, -2, 0).reshape(g.shape[-2], -1)
                x = x.reshape(-1, x.shape[-1])
            with np.errstate(all='ignore'):
                _, cov = mstep.gaussian(x, g, ctype)
            full = ctype == 'full'
        if cov is None:
            cov = np.asarray(model.gaussian.covariance, dtype=float)
            full = cov.ndim >= 2 and type(model.gaussian).__name__ == 'Gaussian'
        with np.errstate(all='ignore'):
            small = np.linalg.eigvalsh(cov).min() if full else cov.min()
        if not small >= 1e-12 * ref:
            g_.append('gaussian-component-collapsed')
    w = np.asarray(model.weight, dtype=float)
    if w.size and w.min() < 1e-12:
        g_.append('class-without-mass')
    return g_


def run_case(case, R):
    s = scen.build(case)
    n = s.iterations
    try:
        with instr.options(**s.copts), instr.capture() as ev, instr.fp_guard():
            model = scen.fit(s)
    except Exception as e:
        if not instr.is_library_exception(e):
            raise
        R.count(f'fit raised {type(e).__name__}: {str(e)[:80]}')
        R.undecided('C02.monotone', 'fit raised')
        return
    if len(ev) != n:
        R.fail('C02.hook-twin', 'hook/event-count', f'{len(ev)} hook events for {n} iterations')
        return
    Ls, guards = [], []
    with instr.disarmed():
        for e in ev:
            try:
                Ls.append(loglik(s, e['model']))
            except Exception as ex:
                if not instr.is_library_exception(ex):
                    raise
                Ls.append(float('nan'))
            guards.append(guard_state(s, e['model'], e))
    Ntot = int(np.prod(s.lead, dtype=int)) * s.N
    # the likelihood is weighted by the saliency: its natural scale is the total saliency mass (= number of observations without one)
    mass = float(np.sum(s.saliency)) if s.saliency is not None else float(Ntot)
    absL = max(min(1.0, mass), abs(Ls[0]))
    tol = 1e-9 * absL
    if s.kind == 'cwmm':
        tol += 1e-6 * min(Ntot, mass)
    if s.copts.get('affiliation_eps'):
        tol += 1e-7 * s.K * min(Ntot, mass)
    free = 0
    worst = 0.0
    for i in range(n):
        if guards[i] or not np.isfinite(Ls[i]):
            break
        free = i + 1
        if i >= 1:
            drop = Ls[i - 1] - Ls[i]
            worst = max(worst, drop)
            R.check('C02.monotone', drop <= tol, f'decrease/{s.kind}',
                    f'{s.kind}: log-likelihood fell from {Ls[i-1]:.12g} to {Ls[i]:.12g} at iteration {i} (tol {tol:.2e})',
                    iteration=i, drop=drop, tol=tol, opts=case['opts'])
    if free < n:
        R.undecided('C02.monotone', 'guard active: ' + ','.join(guards[free]) if free < len(guards) and guards[free] else 'non-finite L')
        R.count('iterations after a guard became active (not judged)', n - free)
    if free >= 3 and Ls[free - 1] - Ls[0] > 1e-6 * min(Ntot, mass):
        R.mark_nontrivial(s.kind, case['opts'], s.K, s.D, case['lead'])
    R.sample(dict(kind=s.kind, opts=case['opts'], K=s.K, D=s.D, N=s.N, lead=case['lead'], iterations=n, guard_free=free,
                  L_first=Ls[0], L_last=Ls[free - 1] if free else None, worst_drop=worst))

    # boundary twin: prefix fits must reproduce the models reported by the hook ---------------------------
    with instr.disarmed():
        for i in sorted({1, min(2, n), n}):
            try:
                mi = scen.fit(s, iterations=i)
            except Exception:
                continue
            a, b = models.model_arrays(mi), models.model_arrays(ev[i - 1]['model'])
            same = all(np.array_equal(np.asarray(a[k]), np.asarray(b[k]), equal_nan=True) if isinstance(a[k], np.ndarray) or isinstance(b[k], np.ndarray)
                       else a[k] == b[k] for k in a)
            if R.check('C02.hook-twin', same, 'hook/prefix-fit-mismatch', f'model reported by the hook at iteration {i-1} differs from fit(iterations={i})'):
                instr.CTX.hook_validated += 1
            # the prefix-fit models themselves must be monotone too (no hook needed)
        # log_likelihood method (cACGMM only has one) -----------------------------------------------------
        if s.kind == 'cacgmm':
            y = s.data['y']
            prev = None
            m = None
            for j in range(min(n, 4)):
                try:
                    m = scen.fit(s, iterations=1) if m is None else models.fit('cacgmm', s.data, init=m, iterations=1, **s.opts)
                    got = float(m.log_likelihood(y))
                except Exception as e:
                    if not instr.is_library_exception(e):
                        raise
                    R.count(f'log_likelihood chain raised {type(e).__name__}')
                    break
                s1 = scen.Scenario(); s1.__dict__.update(s.__dict__); s1.saliency = None
                ref = loglik(s1, m)
                R.check('C02.loglik-method', abs(got - ref) <= 1e-10 * max(1, abs(ref)), 'log_likelihood/value',
                        f'CACGMM.log_likelihood = {got:.6f} but the mixture log-likelihood (weights included) is {ref:.6f}',
                        got=got, ref=ref, wca=case['opts'].get('wca'))
                if prev is not None and s.saliency is None and not guard_state(s, m):
                    R.check('C02.loglik-method', got >= prev - tol, 'log_likelihood/decrease',
                            f'CACGMM.log_likelihood fell from {prev} to {got} along a continued fit', drop=prev - got)
                prev = got

"""C06 - leading (frequency/batch) axes are independent problems."""
import numpy as np

from vmon import diff, gen, instr, models, oracles, scen

from vmon.scale import S

ID = 'C06'
RULE = ('cases = a stacked call (1..3 leading axes of sizes 1..5, different content per slice) versus the same call on every '
        'slice alone: fit and log_pdf of the eight single distributions, fit/predict of cACGMM, cWMM, cBMM, GMM (3 covariance '
        'types) and vMFMM with per-slice weights, a start with singleton leading axes versus its explicit repetition, and log_pdf of models '
        'built from given stacked parameters (Bingham, cACG, Watson, vMF, Gaussian; slices differing by orders of magnitude or with equal '
        'parameters inside a slice; per-slice saliency levels 1e-15..1e15) versus the model of each slice; '
        'non-trivial = >= 2 slices whose stand-alone results differ by > 1e-3; distinct by (entry point, lead shape, D, options)')
DECIDING = ['C06.dist-fit', 'C06.dist-logpdf', 'C06.mixture', 'C06.singleton-init']
MIN_DECIDED = {'quick': 150, 'thorough': 1500}
CASE_TIMEOUT = {'quick': 300, 'thorough': 900}
ASSUMPTIONS = ['results are compared through gauge-free functionals (covariance matrices, projectors) with rtol 1e-10 (Bingham: 1e-5, its M-step is a numeric solve)']
FAMS = ['gauss', 'diag', 'spher', 'ccsg', 'vmf', 'watson', 'cacg', 'bingham']
CACG_KW = {}
WATSON_KW = {}
MIX = ['cacgmm', 'cwmm', 'cbmm', 'gmm', 'vmfmm']


def rand_lead(rng, small=False):
    nd = int(rng.integers(1, 4 if not small else 3))
    return [int(rng.integers(1, 6 if not small else 3)) for _ in range(nd)]


def plan(tier, seed):
    rng = np.random.default_rng([seed, 106])
    pick = lambda xs: xs[int(rng.integers(len(xs)))]
    cases, i = [], 0
    n = S(tier, 16, 160)
    for fam in FAMS:
        for r in range(n if fam != 'bingham' else max(4, n // 4)):
            D = int(rng.integers(2, 7)) if fam in ('watson', 'cacg', 'bingham', 'vmf') else int(rng.integers(1, 7))
            if fam in ('watson', 'cacg', 'vmf', 'gauss') and r % 9 == 4:
                D = int(pick([9, 10, 12, 16]))          # more channels than the usual 2..8
            if fam == 'bingham':
                D = int(rng.integers(2, 5))
            lead = rand_lead(rng, small=(fam == 'bingham'))
            cases.append(dict(lane='dist', fam=fam, D=D, N=int(rng.integers(D + 3, 30)), lead=lead, saliency=bool(rng.integers(0, 2)), rs=[seed, 6, i]))
            i += 1
    m = S(tier, 14, 140)
    for kind in MIX:
        for r in range(m if kind != 'cbmm' else max(3, m // 6)):
            K = int(rng.integers(2, 5)); D = int(rng.integers(2, 7))
            if kind == 'cbmm':
                K = 2; D = int(rng.integers(2, 4))
            lead = rand_lead(rng, small=(kind == 'cbmm'))
            o = {'wca': pick([[-1], [-1], [-2]]), 'saliency': pick(['none', 'pos'])}        # per-slice weights: tied over the observations of a slice, or over its classes
            if rng.uniform() < 0.4:
                o['wca_int'] = True
            if kind == 'cacgmm':
                o.update(covariance_norm=pick(['eigenvalue', 'trace', False]), hermitize=pick([True, False]), affiliation_eps=pick([0.0, 1e-10]), eigenvalue_floor=pick([1e-10, 1e-10, 0.05]))
                o['mask'] = bool(rng.uniform() < 0.25)
            if kind == 'gmm':
                o['covariance_type'] = pick(['full', 'diagonal', 'spherical'])
            N = int(rng.integers(4 * K + D, 8 * K + D + 10)) if kind != 'gmm' else int(rng.integers(6 * K + 2 * D, 10 * K + 2 * D + 10))
            if kind == 'cwmm' and D <= 6:
                o['max_concentration'] = pick([500, 600, 700])
            ini = pick(['dirichlet:1', 'blur:0.3', 'singleton', 'singleton-inner'])
            if ini.startswith('singleton'):
                o.pop('mask', None)      # the trainer validates mask.shape == initialization.shape: explicit exception, not a stacking question
            cases.append(dict(lane='mixture', kind=kind, cls='gauss', K=K, N=N, D=D, lead=lead, init=ini, layout=pick(['c', 'c', 'tview', 'f']), peaked=bool(rng.uniform() < 0.3),
                              iters=int(pick([1, 2, 3, 5])) if kind != 'cbmm' else 1, opts=o, rs=[seed, 7, i]))
            i += 1
    # models built from given parameters (not fitted): slices whose parameters differ by orders of magnitude or coincide inside a slice
    for fam in ('bingham', 'cacg', 'watson', 'vmf', 'gauss'):
        for r in range(S(tier, 12, 120) if fam != 'bingham' else S(tier, 10, 60)):
            cases.append(dict(lane='model', fam=fam, D=int(rng.integers(2, 5)) if fam == 'bingham' else int(rng.integers(2, 7)), lead=rand_lead(rng, small=True), rs=[seed, 66, i]))
            i += 1
    return cases


def run_case(case, R):
    with instr.fp_guard():
        {'dist': run_dist, 'model': run_model}.get(case['lane'], run_mixture)(case, R)


def run_model(case, R):
    """log_pdf of a model whose parameters are stacked along leading axes = log_pdf of the model of each slice alone."""
    from pb_bss import distribution as d
    from pb_bss.distribution.complex_bingham import ComplexBingham
    rng = gen.rng_of(case)
    fam, D, lead = case['fam'], case['D'], tuple(case['lead'])
    n = 6
    kinds = []

    def build(sl):
        # sl: index tuple into the leading axes or () for the whole stack
        P = {k: (v[sl] if sl != () else v) for k, v in par.items()}
        if fam == 'bingham':
            return ComplexBingham(covariance_eigenvectors=P['U'].copy(), covariance_eigenvalues=P['lam'].copy())
        if fam == 'cacg':
            return d.ComplexAngularCentralGaussian(covariance_eigenvectors=P['U'].copy(), covariance_eigenvalues=P['lam'].copy())
        if fam == 'watson':
            return d.ComplexWatson(mode=P['mode'].copy(), concentration=P['kappa'].copy())
        if fam == 'vmf':
            return d.VonMisesFisher(mean=P['mode'].copy(), concentration=P['kappa'].copy())
        return d.Gaussian(mean=P['mean'].copy(), covariance=P['cov'].copy())

    par = {}
    if fam in ('bingham', 'cacg'):
        U = np.empty((*lead, D, D), dtype=complex); lam = np.empty((*lead, D))
        for idx in np.ndindex(*lead):
            U[idx] = np.linalg.qr(gen.cnormal(rng, (D, D)))[0]
            kind = ['plain', 'dup', 'neardup', 'large', 'small'][int(rng.integers(5))]
            kinds.append(kind)
            if fam == 'bingham':
                scale = {'plain': 10.0, 'dup': 5.0, 'neardup': 5.0, 'large': 10 ** rng.uniform(2.5, 3.7), 'small': 0.3}[kind]
                l = -np.sort(rng.uniform(0.05, 1.0, size=D))[::-1] * scale
                l = l - l.max()                                       # maximum 0 as the trainer returns them
                if kind == 'dup':
                    l[1] = l[0]                                       # two exactly equal concentrations
                if kind == 'neardup':
                    l[1] = l[0] * (1 + 1e-11)
                lam[idx] = rng.permutation(l)
            else:
                l = 10.0 ** rng.uniform(-6, 0, size=D) if kind in ('large', 'small') else rng.uniform(0.05, 1.0, size=D)
                l = l / l.max()
                if kind == 'dup':
                    l[1] = l[0]
                lam[idx] = l
        par = dict(U=U, lam=lam)
        x = oracles.unit(gen.cnormal(rng, (*lead, n, D)))
    elif fam in ('watson', 'vmf'):
        real = fam == 'vmf'
        mode = oracles.unit(rng.standard_normal((*lead, D)) if real else gen.cnormal(rng, (*lead, D)))
        kappa = np.empty(lead)
        for idx in np.ndindex(*lead):
            kind = ['plain', 'large', 'small', 'zero'][int(rng.integers(4))]
            kinds.append(kind)
            kappa[idx] = {'plain': rng.uniform(1, 20), 'large': 10 ** rng.uniform(2, 2.7), 'small': 10 ** rng.uniform(-8, -2), 'zero': 0.0 if not real else 1e-10}[kind]
        par = dict(mode=mode, kappa=kappa)
        x = oracles.unit(rng.standard_normal((*lead, n, D)) if real else gen.cnormal(rng, (*lead, n, D)))
        if real:
            # evaluation points of any length (the density normalises them); the first slice is "already normalised" as a
            # single-precision front end leaves it (unit norm up to 1e-7): shortcuts deciding this for the whole tensor live here
            x = x * 10 ** rng.uniform(-1, 1, size=(*lead, n, 1))
            first = (0,) * len(lead)
            x[first] = oracles.unit(x[first]).astype(np.float32).astype(np.float64)
    else:
        mean = rng.standard_normal((*lead, D)); cov = np.empty((*lead, D, D))
        for idx in np.ndindex(*lead):
            kind = ['plain', 'large', 'small', 'offset'][int(rng.integers(4))]
            kinds.append(kind)
            cov[idx] = gen.hpd(rng, D, cond=10.0, real=True) * {'plain': 1.0, 'large': 1e8, 'small': 1e-8, 'offset': 1.0}[kind]
            if kind == 'offset':
                mean[idx] += 1e4
        par = dict(mean=mean, cov=cov)
        x = mean[..., None, :] + np.einsum('...ab,...nb->...na', np.linalg.cholesky(cov), rng.standard_normal((*lead, n, D)))
    info = dict(fam=fam, D=D, lead=list(lead), kinds=kinds)
    per = {}
    try:
        for idx in np.ndindex(*lead):
            per[idx] = np.asarray(build(idx).log_pdf(x[idx]))
    except Exception as e:
        if not instr.is_library_exception(e):
            raise
        R.count(f'{fam} model: a slice alone raised {type(e).__name__}')
        R.undecided('C06.dist-logpdf', 'slice raised')
        return
    try:
        LP = np.asarray(build(()).log_pdf(x))
    except Exception as e:
        if not instr.is_library_exception(e):
            raise
        R.fail('C06.dist-logpdf', f'stacked-raised/{fam}/model-log_pdf', f'{fam}.log_pdf of a stacked model raised {type(e).__name__} although every slice alone succeeds: {str(e)[:120]}', **info)
        return
    ok = LP.shape == (*lead, n)
    dv = 0.0
    if ok:
        for idx, lp in per.items():
            dv = max(dv, float(np.abs(LP[idx] - lp).max() / (1 + np.abs(lp).max())))
    R.check('C06.dist-logpdf', ok and dv <= 1e-9, f'stack-vs-slice/{fam}/model-log_pdf', f'{fam}.log_pdf of a stacked model (shape {LP.shape}) differs from the models of its slices by {dv:.3e} (relative)', dev=dv, **info)
    if len(set(kinds)) >= 2:
        R.mark_nontrivial('model', fam, list(lead), D, tuple(sorted(set(kinds))))
    R.sample(dict(lane='model', logpdf_dev=dv, **info))


def _fit_fn(fam):
    from pb_bss import distribution as d
    from pb_bss.distribution.complex_bingham import ComplexBinghamTrainer
    if fam == 'gauss':
        return lambda y, s: d.GaussianTrainer().fit(y, saliency=s, covariance_type='full')
    if fam == 'diag':
        return lambda y, s: d.GaussianTrainer().fit(y, saliency=s, covariance_type='diagonal')
    if fam == 'spher':
        return lambda y, s: d.GaussianTrainer().fit(y, saliency=s, covariance_type='spherical')
    if fam == 'ccsg':
        return lambda y, s: d.ComplexCircularSymmetricGaussianTrainer().fit(y, saliency=s)
    if fam == 'vmf':
        return lambda y, s: d.VonMisesFisherTrainer().fit(y, saliency=s)
    if fam == 'watson':
        return lambda y, s: d.ComplexWatsonTrainer(**WATSON_KW).fit(y, saliency=s)
    if fam == 'cacg':
        return lambda y, s: d.ComplexAngularCentralGaussianTrainer().fit(y, **CACG_KW)
    if fam == 'bingham':
        return lambda y, s: ComplexBinghamTrainer(max_concentration=WATSON_KW.get('bingham_max', 500)).fit(y, saliency=s)


def run_dist(case, R):
    rng = gen.rng_of(case)
    CACG_KW.clear(); WATSON_KW.clear()
    fam, D, N, lead = case['fam'], case['D'], case['N'], tuple(case['lead'])
    real = fam in ('gauss', 'diag', 'spher', 'vmf')
    if real:
        y = np.einsum('...ab,...nb->...na', np.linalg.cholesky(gen.hpd(rng, D, cond=10.0, lead=lead, real=True)), rng.standard_normal((*lead, N, D)))
        y = y + rng.standard_normal((*lead, 1, D)) * 2
    else:
        # slices of different anisotropy (condition 1 .. 1e3 per slice): iterative trainers converge at different speeds in them
        cond = 10.0 ** rng.uniform(0, 3, size=lead) if (lead and fam in ('cacg', 'bingham') and rng.uniform() < 0.6) else np.full(lead, 10.0)
        C = np.empty((*lead, D, D), dtype=complex)
        for idx in np.ndindex(*lead):
            C[idx] = gen.hpd(rng, D, cond=float(cond[idx]))
        y = np.einsum('...ab,...nb->...na', np.linalg.cholesky(C), gen.cnormal(rng, (*lead, N, D)))
    if lead and int(np.prod(lead)) >= 2 and (case['rs'][-1] % 5 == 2 or (fam == 'bingham' and case['rs'][-1] % 2 == 0)):
        # near-duplicate slices: the second slice is the first one with one channel's gain changed by 1e-9 .. 1e-4 (anything keyed on
        # rounded statistics of a slice, or shared between "equal" slices, shows up only here)
        flat = y.reshape(-1, N, D).copy()
        ch = int(rng.integers(D))
        if fam == 'bingham':
            # concentrated data with one weak channel (scatter eigenvalue 1e-5 .. 1e-3, to which its Bingham parameter ~ -1/lambda is
            # sensitive): changing that channel's gain by 1e-5 moves the normalised spectrum by < 1e-8 but the parameter by 1e-5
            sc = np.ones(D); ch = D - 1; sc[ch] = 10 ** rng.uniform(-2.5, -1.5)
            flat[0] = gen.cnormal(rng, (N, D)) * sc
            WATSON_KW['bingham_max'] = np.inf
        flat[1] = flat[0] * (1 + np.eye(D)[ch] * 10 ** (rng.uniform(-5.5, -4) if fam == 'bingham' else rng.uniform(-9, -4)))
        y = flat.reshape(*lead, N, D)
    sal = rng.uniform(0.1, 1.0, size=(*lead, N)) if (case['saliency'] and fam != 'cacg') else None
    if sal is not None and lead and case['rs'][-1] % 3 == 1:
        # slices whose observation weights live at different levels (one recording 140 dB quieter than its neighbour): the level of the
        # weights of a slice is free, and nothing of one slice may serve as the yardstick for another
        sal = sal * 10.0 ** rng.uniform(-15, 15, size=(*lead, 1))
    x = (rng.standard_normal((*lead, 5, D)) if real else gen.cnormal(rng, (*lead, 5, D)))
    if fam == 'cacg':
        CACG_KW.update(covariance_norm=[None, 'eigenvalue', 'trace', False][int(rng.integers(1, 4))], eigenvalue_floor=float(rng.choice([1e-10, 0.05, 0.2])),
                       iterations=int(rng.choice([1, 4, 4, 10, 30, 100])))
        y = y * 10 ** rng.uniform(-2, 2, size=(*lead, 1, 1))           # slices with different spectra / scales
    if fam == 'watson':
        WATSON_KW.update(max_concentration=float(rng.choice([500, 600, 700])) if D <= 6 else 500.0)
        if lead and rng.uniform() < 0.5:
            idx0 = (0,) * len(lead)
            y[idx0] = gen.cnormal(rng, (N, 1)) * gen.cnormal(rng, (1, D)) + 1e-3 * gen.cnormal(rng, (N, D))     # a (nearly) rank-one slice
    lay = ['c', 'c', 'f', 'tview'][int(rng.integers(0, 4))]
    if lay != 'c':
        dd = dict(y=y); scen.relayout(dd, lay); y = dd['y']
    fit = _fit_fn(fam)
    rtol = 1e-8 if fam == 'bingham' else 1e-10
    # per slice -------------------------------------------------------------------------------------------------
    slices = {}
    for idx in np.ndindex(*lead):
        try:
            m = fit(y[idx], None if sal is None else sal[idx])
            lp = np.asarray(m.log_pdf(x[idx] if fam not in ('watson', 'bingham') else oracles.unit(x[idx])))
            slices[idx] = (m, lp)
        except Exception as e:
            if not instr.is_library_exception(e):
                raise
            slices[idx] = e
    if any(isinstance(v, Exception) for v in slices.values()):
        R.count(f'{fam}: a slice alone raised')
        R.undecided('C06.dist-fit', 'slice raised')
        return
    try:
        M = fit(y, sal)
    except Exception as e:
        if not instr.is_library_exception(e):
            raise
        R.fail('C06.dist-fit', f'stacked-raised/{fam}/fit', f'{fam} trainer raised {type(e).__name__} on a stack {lead} although every slice alone succeeds: {str(e)[:120]}', lead=list(lead), D=D)
        return
    F = diff.functionals(M)
    worst, wname = 0.0, None
    for idx, (m, lp) in slices.items():
        f = diff.functionals(m)
        try:
            Fi = {k: np.asarray(v)[idx] for k, v in F.items()}
        except IndexError:
            worst, wname = np.inf, 'shape'
            break
        w, name = diff.compare(f, Fi, rtol=rtol, atol=rtol)
        if w > worst:
            worst, wname = w, name
    R.check('C06.dist-fit', worst <= 1, f'stack-vs-slice/{fam}/fit', f'{fam} trainer: {wname} of the stacked fit differs from the per-slice fit (ratio to tolerance {worst:.3g})',
            worst=worst, field=wname, lead=list(lead), D=D, saliency=case['saliency'])
    try:
        LP = np.asarray(M.log_pdf(x if fam not in ('watson', 'bingham') else oracles.unit(x)))
    except Exception as e:
        if not instr.is_library_exception(e):
            raise
        R.fail('C06.dist-logpdf', f'stacked-raised/{fam}/log_pdf', f'{fam}.log_pdf raised {type(e).__name__} on a stack {lead} although every slice alone succeeds: {str(e)[:120]}', lead=list(lead), D=D)
        return
    ok = LP.shape == (*lead, 5)
    dv = 0.0
    if ok:
        for idx, (m, lp) in slices.items():
            dv = max(dv, float(np.abs(LP[idx] - lp).max() / (1 + np.abs(lp).max())))
    R.check('C06.dist-logpdf', ok and dv <= max(rtol, 1e-9), f'stack-vs-slice/{fam}/log_pdf', f'{fam}.log_pdf of the stack (shape {LP.shape}) differs from per-slice evaluation by {dv:.3e} (relative)',
            dev=dv, lead=list(lead), D=D)
    vals = [float(np.abs(lp).sum()) for (_, lp) in slices.values()]
    if len(vals) >= 2 and max(vals) - min(vals) > 1e-3:
        R.mark_nontrivial('dist', fam, list(lead), D, case['saliency'])
    R.sample(dict(lane='dist', fam=fam, lead=list(lead), D=D, N=N, saliency=case['saliency'], fit_ratio=worst, logpdf_dev=dv))


def run_mixture(case, R):
    s = scen.build(case)
    kind, lead = s.kind, s.lead
    if case.get('peaked') and kind in models.COMPLEX and lead:
        # one slice is (nearly) rank one: its concentration reaches the clipping bound while the others stay ordinary
        rr = np.random.default_rng([*case['rs'], 77])
        idx0 = (0,) * len(lead)
        v = gen.cnormal(rr, (1, s.D))
        yy = np.array(s.data['y'])
        yy[idx0] = gen.cnormal(rr, (s.N, 1)) * v + 1e-3 * gen.cnormal(rr, (s.N, s.D))
        s.data['y'] = yy
        scen.relayout(s.data, case.get('layout', 'c'))
    tol = 1e-5 if kind == 'cbmm' else 1e-9
    singleton = case['init'].startswith('singleton')
    if case['init'] == 'singleton-inner' and len(lead) >= 2:
        # singleton only in an inner leading axis: (F1, 1, K, N) against observations (F1, F2, N, D)
        rr = np.random.default_rng([*case['rs'], 66])
        s.init = gen.dirichlet_init(rr, (lead[0],) + (1,) * (len(lead) - 1), s.K, s.N)
    init_full = np.broadcast_to(s.init, s.aff_shape).copy()

    def run(data, init, sal, mask):
        s2 = scen.Scenario(); s2.__dict__.update(s.__dict__)
        s2.data, s2.init = data, init
        s2.opts = dict(s.opts)
        s2.aff_shape = init.shape
        if sal is not None:
            s2.opts['saliency'] = sal
        if mask is not None:
            s2.opts['source_activity_mask'] = mask
        co = dict(s.copts); co['mask'] = mask; co['aff_shape'] = (*data['y'].shape[:-2], s.K, s.N)
        with instr.options(**co):
            model = scen.fit(s2)
            pk = {'source_activity_mask': mask} if (mask is not None and kind == 'cacgmm') else {}
            post = models.predict(kind, model, data, **pk)
        return model, post

    outs = {}
    for idx in np.ndindex(*lead):
        try:
            outs[idx] = run(dict(y=s.data['y'][idx]), init_full[idx], None if s.saliency is None else s.saliency[idx], None if s.mask is None else s.mask[idx])
        except Exception as e:
            if not instr.is_library_exception(e):
                raise
            outs[idx] = e
    if any(isinstance(v, Exception) for v in outs.values()):
        R.count(f'{kind}: a slice alone raised')
        R.undecided('C06.mixture', 'slice raised')
        return
    mon = 'C06.singleton-init' if singleton else 'C06.mixture'
    try:
        M, P = run(s.data, s.init, s.saliency, s.mask)
    except Exception as e:
        if not instr.is_library_exception(e):
            raise
        R.fail(mon, f'stacked-raised/{kind}', f'{kind} raised {type(e).__name__} on a stack {lead} although every slice alone succeeds: {str(e)[:120]}', lead=list(lead), opts=case['opts'])
        return

    def noise_fn(reps=range(2)):
        nz = dict(post=0.0, par=0.0)
        for rep in reps:
            rr = np.random.default_rng([*case['rs'], 9, rep])
            dd = dict(y=s.data['y'] * (1 + 2.0 ** -50 * rr.uniform(-1, 1, size=s.data['y'].shape)))
            m2, p2 = run(dd, s.init, s.saliency, s.mask)
            nz['post'] = max(nz['post'], float(np.abs(p2 - P).max()))
            nz['par'] = max(nz['par'], diff.compare(diff.functionals(m2), diff.functionals(M), rtol=tol * 10, atol=tol * 10)[0])
        return nz

    judge = diff.Judge(R, noise_fn)
    F = diff.functionals(M)
    dpost, worst, wname = 0.0, 0.0, None
    for idx, (m, p) in outs.items():
        dpost = max(dpost, float(np.abs(P[idx] - p).max()))
        f = diff.functionals(m)
        Fi = {}
        for k, v in F.items():
            v = np.asarray(v)
            hd = v.shape[:len(lead)]
            if v.ndim != np.ndim(f.get(k, v)) + len(lead):
                Fi[k] = v           # no leading axes at all (e.g. the constant class-tied weight 1/K of shape (K, 1), also when K == F)
                continue
            if hd != lead and len(hd) == len(lead) and all(a == b or a == 1 for a, b in zip(hd, lead)):
                # parameters of a fit from a start with singleton leading axes may keep those singleton axes
                v = np.broadcast_to(v, lead + v.shape[len(lead):])
            # (a parameter without leading axes - e.g. the constant class-tied weight 1/K of shape (K, 1) - is compared as it is, also when K happens to equal F)
            Fi[k] = v[idx] if (v.shape[:len(lead)] == lead and v.ndim == np.ndim(f.get(k, v)) + len(lead)) else v
        w, name = diff.compare(f, Fi, rtol=tol * 10, atol=tol * 10)
        if w > worst:
            worst, wname = w, name
    judge(mon, dpost, tol, 'post', f'stack-vs-slice/{kind}/posterior', f'{kind}: posterior of the stacked fit differs from the per-slice fit by {dpost:.3e}', dev=dpost, lead=list(lead), opts=case['opts'], init=case['init'])
    judge(mon, worst, 1.0, 'par', f'stack-vs-slice/{kind}/params', f'{kind}: {wname} of the stacked fit differs from the per-slice fit (ratio {worst:.3g})', worst=worst, field=wname, lead=list(lead), opts=case['opts'], init=case['init'])
    posts = [float(p.sum(-1).ravel()[0]) for (_, p) in outs.values()]
    if len(posts) >= 2 and max(posts) - min(posts) > 1e-3:
        R.mark_nontrivial('mixture', kind, list(lead), s.D, case['opts'], case['init'])
    R.sample(dict(lane='mixture', kind=kind, lead=list(lead), K=s.K, D=s.D, init=case['init'], opts=case['opts'], posterior_dev=dpost, param_ratio=worst))

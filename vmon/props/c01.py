"""C01 - affiliations are valid distributions and equal the model's Bayes posterior."""
import numpy as np

from vmon import conds, gen, instr, models, scen

from vmon.scale import S

ID = 'C01'
RULE = ('cases = (model kind x input class x sampled trainer options x start) fits observed through predict/'
        'fit_predict, the iteration hook and the posterior-routine contract, plus initialiser calls and direct '
        'hostile calls of the posterior routine; non-trivial = posterior not constant over classes and >= 2 '
        'classes with > 1 % mass (initialisers: >= 2 classes used); distinct by (lane, kind, input class, dtype, '
        'K, D, N, lead, options)')
REACH_REQUIRED = {'posterior routine: clipping branch': ('distribution/mixture_model_utils.py', r'affiliation = np\.clip\('),
                  'integration models: built-in alignment': ('distribution/mixture_model_utils.py', r'for permutation in permutations:')}
DECIDING = ['C01.M1', 'C01.M2', 'C01.M3', 'C01.M4', 'C01.init']
MIN_DECIDED = {'quick': 150, 'thorough': 1500}
NEEDS_HOOK = True
CASE_TIMEOUT = {'quick': 120, 'thorough': 1200}
ASSUMPTIONS = ['component densities p_k are taken from the component objects own public log_pdf (as the statement says)',
               'scipy.special.logsumexp is correct']


def plan(tier, seed):
    rng = np.random.default_rng([seed, 101])
    cases = []
    n_fit = S(tier, 30, 320)
    classes = ['gauss', 'scaled_up', 'scaled_down', 'ragged', 'zeros', 'dup', 'lowrank', 'short']
    i = 0
    for kind in models.KINDS:
        reps = n_fit if kind != 'cbmm' else max(6, n_fit // 5)
        for r in range(reps):
            cls = classes[r % len(classes)]
            K = int(rng.integers(1, 7)) if r % 9 == 8 else int(rng.integers(2, 5))
            D = int(rng.integers(2, 9))
            if kind == 'cbmm':
                D = int(rng.integers(2, 5)); K = int(rng.integers(2, 4))
            if kind in models.INTEGRATION:
                lead = [int(rng.choice([1, 3, 5]))]
            else:
                lead = [[], [1], [3], [2, 3], [2, 1, 3]][int(rng.integers(0, 5 if kind != 'cbmm' else 2))]
            if cls == 'short':
                N = int(rng.choice([1, 2, max(1, D - 1), D]))
            else:
                N = int(rng.integers(4 * K, 16 * K + 8)) if kind != 'cbmm' else int(rng.integers(3 * K, 8 * K))
            real = kind in models.REAL
            dtype = ('f32' if real else 'c64') if rng.uniform() < 0.2 else ('f64' if real else 'c128')
            init = ['dirichlet:1', 'dirichlet:0.1', 'dirichlet:10', 'onehot', 'blur:0.3', 'num_classes', 'singleton', 'onehot:bool', 'onehot:int'][int(rng.integers(0, 9))]
            if init.startswith('onehot') and N < K:
                init = 'dirichlet:1'
            if init == 'singleton' and not lead:
                init = 'dirichlet:1'
            o = scen.sample_opts(rng, kind, lead)
            if init in ('num_classes', 'singleton'):
                o.pop('mask', None)
            iters = int(rng.choice([1, 2, 3, 5, 10])) if kind != 'cbmm' else int(rng.choice([1, 2, 3]))
            cases.append(dict(lane='fit', kind=kind, cls='gauss' if cls == 'short' else cls, K=K, N=N, D=D, lead=lead, dtype=dtype,
                              init=init, iters=iters, opts=o, silent_bin=bool(lead and r % 6 == 5), rs=[seed, 1, i]))
            i += 1
    # single precision throughout (complex64 / float32 data with an array start) on rank-deficient classes in the largest dimensions,
    # short fits: products of floored eigenvalues / tiny norms leave the float32 range here and nowhere else, and a degenerate last
    # M-step is returned to the caller instead of tripping an assertion in the next one
    for kind in models.KINDS:
        for r in range((S(tier, 12, 120) if kind in ('cacgmm', 'gcacgmm', 'vmfcacgmm') else S(tier, 4, 40)) if kind != 'cbmm' else S(tier, 2, 12)):
            cls = ['dup', 'short', 'lowrank', 'zeros'][r % 4]
            K = int(rng.integers(2, 4))
            D = int(rng.choice([6, 7, 8, 8])) if kind != 'cbmm' else int(rng.integers(3, 5))
            lead = [int(rng.choice([1, 3]))] if kind in models.INTEGRATION else [[], [2]][int(rng.integers(0, 2))]
            N = int(rng.choice([1, 2, 3, D - 1])) if cls == 'short' else int(rng.integers(4 * K, 8 * K))
            o = scen.sample_opts(rng, kind, lead)
            if r % 2:
                o.pop('eigenvalue_floor', None)         # the default floor (1e-10): five floored eigenvalues leave the float32 range
            init = ['onehot', 'blur:0.3', 'dirichlet:1', 'blur:0.01'][int(rng.integers(0, 4))]
            if init.startswith('onehot') and N < K:
                init = 'dirichlet:1'
            cases.append(dict(lane='fit', kind=kind, cls='gauss' if cls == 'short' else cls, K=K, N=N, D=D, lead=lead,
                              dtype='f32' if kind in models.REAL else 'c64', init=init, iters=int(rng.choice([1, 1, 2])), opts=o, rs=[seed, 4, i]))
            i += 1
    n_init = S(tier, 60, 600)
    for r in range(n_init):
        cases.append(dict(lane='init', which=['uniform_normalized', 'dirichlet_uniform', 'dirichlet', 'one_hot', 'flag', 'deflation'][r % 6],
                          K=int(rng.integers(1, 7)), N=int(rng.integers(1, 40)), D=int(rng.integers(2, 9)),
                          lead=[[], [2], [2, 3]][int(rng.integers(0, 3))], pf=bool(rng.integers(0, 2)), rs=[seed, 2, r]))
    n_rt = S(tier, 60, 600)
    for r in range(n_rt):
        cases.append(dict(lane='routine', K=int(rng.integers(1, 7)), N=int(rng.integers(1, 30)), lead=[[], [3], [2, 2]][int(rng.integers(0, 3))],
                          spread=float(rng.choice([1, 30, 300, 700])), eps=float(rng.choice([0, 0, 1e-10, 1e-3])),
                          mask=bool(rng.integers(0, 2)), wkind=['k1', 'full', 'kn'][int(rng.integers(0, 3))], f32=bool(rng.uniform() < 0.2), rs=[seed, 3, r]))
    if tier == 'thorough':
        cases.append(dict(lane='suite', rs=[seed, 99, 0]))
    return cases


def run_case(case, R):
    if case['lane'] == 'suite':
        from vmon import suite_lane
        return suite_lane.run(R, ID)
    with instr.fp_guard():
        {'fit': run_fit, 'init': run_init, 'routine': run_routine}[case['lane']](case, R)


# ---------------------------------------------------------------------------

def tol_for(case):
    # single precision: log-densities of magnitude ~1e2 (rank-deficient classes, D up to 8) carry eps32 * 1e2 ~ 1e-5 each; every
    # single-precision case has double-precision siblings judged at 1e-9
    return 1e-9 if case.get('dtype', 'c128') in ('c128', 'f64') else 1e-4


def run_fit(case, R):
    s = scen.build(case)
    kind = s.kind
    if case.get('silent_bin') and s.lead and kind not in models.REAL:
        s.data['y'][(0,) * len(s.lead)] = 0            # a silent frequency bin / batch entry: every frame of the first slice is the zero vector
    sig = ('fit', kind, case['cls'], case['dtype'], s.K, s.D, s.N, case['lead'], case['init'], case['opts'])
    try:
        with instr.options(**s.copts), instr.capture() as events:
            model = scen.fit(s)
    except Exception as e:
        if not instr.is_library_exception(e):
            raise
        R.count(f'fit raised {type(e).__name__}')
        R.ok('C01.raised')
        return
    mass, first_bad = scen.class_mass(s, events)
    if first_bad is not None:
        R.count('left domain: a class lost all mass')
        R.undecided('C01.M2', 'class without mass')
        return
    # predict (with the mask for cACGMM) ------------------------------------------------------------
    pk = {}
    if s.mask is not None and kind == 'cacgmm':
        pk['source_activity_mask'] = s.mask
    try:
        post = models.predict(kind, model, s.data, **pk)
    except Exception as e:
        if not instr.is_library_exception(e):
            raise
        R.count(f'predict raised {type(e).__name__}')
        R.ok('C01.raised')
        return
    with instr.disarmed():
        active = np.broadcast_to(models.weight_array(kind, model, s.K) > 0, s.aff_shape)      # classes with prior mass
    if not active.all():
        R.count('model with zero prior weights (columns without prior mass must be all-zero)')
        # float range: if every class that has prior mass lies further below the column maximum than the exp range of the
        # dtype, the un-normalised masses underflow (same reading as the C01.M1 contract); counted, not judged
        try:
            with instr.disarmed(), np.errstate(all='ignore'):
                lp = np.asarray(models.component_log_pdf(kind, model, s.data))
            act = active & (np.broadcast_to(s.mask, s.aff_shape) if pk else True)
            top_act = np.where(act, lp, -np.inf).max(axis=-2)
            lim = -0.95 * float(np.log(np.finfo(lp.dtype if lp.dtype.kind == 'f' else np.float64).tiny))
            some_dead = ~act.all(axis=-2)          # columns in which a class has no prior mass: outside "every class has non-zero mass"
            if (some_dead & ((lp.max(axis=-2) - top_act > lim) | ~np.isfinite(top_act))).any():
                R.count('zero-weight class dominates beyond the exp range of the dtype (not judged)')
                R.undecided('C01.M2', 'outside float range')
                return
        except Exception:
            pass
    mech = ''
    if kind == 'cbmm':
        # mechanism tag for known_findings.json: the Bingham normaliser of the fitted model itself is non-finite (finite, valid eigenvalues
        # such as (-3e16, -46, -1.7, 0): the duplicate-removal step rebuilds them as smallest + cumsum(differences), which rounds the moderate
        # ones to multiples of ulp(3e16) = 4, creates artificial duplicates and divides by zero)
        try:
            with instr.disarmed(), np.errstate(all='ignore'):
                if not np.isfinite(np.asarray(model.complex_bingham.log_norm())).all():
                    mech = '/bingham-normaliser-nonfinite'
        except Exception:
            pass
    ok = conds.check_affiliation(R, 'C01.M2', post, shape=s.aff_shape, eps=0.0, mask=s.mask if pk else None, active=active,
                                 key=f'predict/{kind}{mech}', where=f'{kind}.predict')
    if ok:
        try:
            with instr.disarmed():
                ref = models.bayes_posterior(kind, model, s.data, mask=s.mask if pk else None)
        except Exception as e:
            if not instr.is_library_exception(e):
                raise
            R.undecided('C01.M3', f'component log_pdf raised {type(e).__name__}')
            ref = None
        if ref is not None:
            if not np.isfinite(ref).all():
                R.undecided('C01.M3', 'component log_pdf non-finite')
            else:
                dev = float(np.abs(post - ref).max())
                R.check('C01.M3', dev <= tol_for(case), f'bayes/{kind}', f'{kind}.predict differs from Bayes rule on its own parameters by {dev:.3e}',
                        dev=dev, wca=case['opts'].get('wca'))
        # non-trivial?
        m = post.reshape(-1, *post.shape[-2:]).mean(axis=(0, 2))
        if (m > 0.01).sum() >= 2 and float(np.ptp(post, axis=-2).max()) > 1e-6:
            R.mark_nontrivial(*sig)
    R.sample(dict(lane='fit', kind=kind, cls=case['cls'], shape=list(s.aff_shape), opts=case['opts'], iters=s.iterations,
                  min_class_mass=mass, post_min=float(post.min()), post_max=float(post.max())))
    if kind == 'cacgmm':
        # the other public form of the same posterior: predict(..., return_quadratic_form=True) - same array, with and without a mask
        try:
            with instr.options(**s.copts):
                pq, qf = model.predict(s.data['y'], return_quadratic_form=True, **pk)
            pq = np.asarray(pq)
            R.check('C01.M2', pq.shape == post.shape and np.array_equal(pq, post), 'predict/cacgmm/quadratic-form-variant',
                    'CACGMM.predict(return_quadratic_form=True) returns another affiliation than predict() with the same arguments', masked=bool(pk))
            R.check('C01.M2', np.asarray(qf).shape == post.shape and bool(np.all(np.asarray(qf) >= 0)), 'predict/cacgmm/quadratic-form-shape',
                    f'quadratic form shape {np.asarray(qf).shape} / sign')
        except Exception as e:
            if not instr.is_library_exception(e):
                raise
            R.count(f'predict(return_quadratic_form=True) raised {type(e).__name__}')
    # fit_predict ------------------------------------------------------------------------------------
    try:
        with instr.options(**s.copts):
            fp = scen.fit_predict(s)
    except Exception as e:
        if not instr.is_library_exception(e):
            raise
        R.count(f'fit_predict raised {type(e).__name__}')
        R.ok('C01.raised')
        return
    ok = conds.check_affiliation(R, 'C01.M2', fp, shape=s.aff_shape, eps=0.0, mask=s.mask if kind == 'cacgmm' else None, active=active,
                                 key=f'fit_predict/{kind}{mech}', where=f'{kind}.fit_predict')
    if ok:
        dev = float(np.abs(fp - post).max())
        # GMM.fit_predict has its own default tying; compare only when the call is the same
        R.check('C01.M2', dev <= tol_for(case), f'fit_predict-vs-predict/{kind}',
                f'{kind}.fit_predict differs from predict of the same fit by {dev:.3e}', dev=dev)


def run_init(case, R):
    from pb_bss import initializer as ini
    rng = gen.rng_of(case)
    which, K, N, D, lead, pf = case['which'], case['K'], case['N'], case['D'], tuple(case['lead']), case['pf']
    np.random.seed(int(rng.integers(2 ** 31)))
    Y = gen.cnormal(rng, (*lead, N, D))
    shape = (*lead, K, N)
    try:
        if which == 'flag':
            # "every minimum in (0, 1/K)": linear draws never come near zero, so half of the positive draws are log-uniform
            u = rng.uniform()
            minimum = 0.0 if u < 0.2 else (float(rng.uniform(1e-6, 1) * (1 / K) * 0.999) if u < 0.6 else float(10 ** rng.uniform(-200, np.log10(0.999 / K))))
            if K == 1:
                minimum = 0.0
            a = ini.deterministic.flag(Y, K, permutation_free=True, minimum=minimum)
        elif which == 'deflation':
            F = 257
            T = int(rng.integers(12, 30))
            Yd = gen.cnormal(rng, (F, T, D))
            K = max(2, K)
            a = ini.deflation.deflationSeed(Yd, K, permutation_free=bool(pf), neighbors=int(rng.integers(1, 5)))
            shape = (K, F, T)
        elif which == 'dirichlet':
            a = ini.iid.dirichlet(Y, K, permutation_free=pf, alpha=float(rng.choice([0.1, 1, 10])))
        else:
            a = getattr(ini.iid, which)(Y, K, permutation_free=pf)
    except Exception as e:
        if not instr.is_library_exception(e):
            raise
        R.count(f'{which} raised {type(e).__name__}')
        R.ok('C01.raised')
        return
    if which == 'deflation':
        # documented layout (K, F, T): class axis first
        g = np.moveaxis(np.asarray(a), 0, -2)
        ok = R.check('C01.init', np.asarray(a).shape == shape, 'init/deflation/shape', f'deflationSeed shape {np.asarray(a).shape} != {shape}')
        if ok:
            conds.check_affiliation(R, 'C01.init', g, key='init/deflation', where='deflationSeed')
    else:
        ok = conds.check_affiliation(R, 'C01.init', a, shape=shape, key=f'init/{which}', where=which)
    if ok and which == 'flag':
        a = np.asarray(a)
        lab = a.argmax(axis=-2)
        # one assigned class per frame, contiguous, in class order
        mono = bool((np.diff(lab, axis=-1) >= 0).all())
        R.check('C01.init', mono, 'init/flag/segments', 'flag segments not contiguous in class order')
        if minimum > 0:
            assigned = np.take_along_axis(a, lab[..., None, :], axis=-2)[..., 0, :]
            others = a.copy()
            np.put_along_axis(others, lab[..., None, :], np.nan, axis=-2)
            # "non-assigned classes get exactly the minimum": relative to the minimum itself (a tiny minimum must not vanish)
            dev_o = float(np.nanmax(np.abs(others - minimum))) / minimum if K > 1 else 0.0
            dev_a = float(np.abs(assigned - (1 - (K - 1) * minimum)).max())
            R.check('C01.init', dev_o <= 1e-12 and dev_a <= 1e-12, 'init/flag/minimum',
                    f'flag(minimum={minimum}): non-assigned deviate {dev_o:.2e}, assigned deviates {dev_a:.2e}', K=K, minimum=minimum)
    if ok and len(np.unique(np.asarray(a).argmax(axis=-2 if which != 'deflation' else 0))) >= 2:
        R.mark_nontrivial('init', which, K, N, list(lead), pf)
    R.sample(dict(lane='init', which=which, shape=list(np.asarray(a).shape)))


def run_routine(case, R):
    import pb_bss.distribution.mixture_model_utils as mmu
    rng = gen.rng_of(case)
    K, N, lead = case['K'], case['N'], tuple(case['lead'])
    lp = rng.standard_normal((*lead, K, N)) * case['spread']
    lp += rng.uniform(-300, 300)
    if case['f32']:
        lp = (lp / 8).astype(np.float32)
    wk = case['wkind']
    if wk == 'k1':
        w = rng.dirichlet([0.5] * K, size=lead)[..., None]
    elif wk == 'full':
        w = np.swapaxes(rng.dirichlet([0.5] * K, size=(*lead, N)), -1, -2)
    else:
        w = np.swapaxes(rng.dirichlet([0.5] * K, size=(1,) * len(lead) + (N,)), -1, -2)
    mask = None
    if case['mask']:
        mask = rng.uniform(size=(*lead, K, N)) < 0.7
    before = R.monitors.get('C01.M1', {}).get('checked', 0)
    try:
        g = mmu.log_pdf_to_affiliation(w, lp.copy(), source_activity_mask=mask, affiliation_eps=case['eps'])
    except Exception as e:
        if not instr.is_library_exception(e):
            raise
        R.count(f'routine raised {type(e).__name__}')
        R.ok('C01.raised')
        return
    after = R.monitors.get('C01.M1', {}).get('checked', 0)
    if after == before:
        R.undecided('C01.M1', 'contract not evaluated')
    if K >= 2 and float(np.ptp(g, axis=-2).max()) > 1e-6:
        R.mark_nontrivial('routine', K, N, list(lead), case['spread'], case['eps'], case['mask'], wk, case['f32'])

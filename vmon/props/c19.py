"""C19 - SI-SDR and invasive SXR metrics obey their defining identities."""
import itertools

import numpy as np

from vmon import gen, instr

from vmon.scale import S

ID = 'C19'
RULE = ('cases = real signals (T 8..4096, K 1..4 sources, 1..5 outputs / sensors, scales 1e-6..1e6): si_sdr against the explicit definition, its '
        'scale invariances and per-leading-index independence; input_sxr / output_sxr against explicit power sums, 1/SDR = 1/SIR + 1/SNR, '
        'averaging, rescaling laws, output-permutation invariance and brute-force optimal selection; set_snr/get_snr round trip; return_dict '
        'True / prefix for both functions; non-trivial = K >= 2 or leading axes; distinct by (lane, K, outputs, options)')
DECIDING = ['C19.sisdr', 'C19.input', 'C19.output', 'C19.snr', 'C19.dict']
MIN_DECIDED = {'quick': 400, 'thorough': 4000}
ARM = ()
ASSUMPTIONS = ['explicit python-loop power sums are the reference']


def plan(tier, seed):
    rng = np.random.default_rng([seed, 119])
    n = S(tier, 150, 1500)
    cases, i = [], 0
    for lane in ('sisdr', 'input', 'output', 'snr'):
        for r in range(n):
            cases.append(dict(lane=lane, T=int(rng.choice([8, 16, 100, 1000, 4096])), K=int(rng.integers(1, 5)), M=int(rng.integers(1, 6)),
                              lead=[[], [3], [2, 2], [1], [1, 3], [2, 1], [1, 1]][int(rng.integers(0, 7))], scale=float(10 ** rng.uniform(-6, 6)),
                              avg_s=bool(rng.integers(0, 2)), avg_c=bool(rng.integers(0, 2)), rd=[False, True, 'pre_', ['in', 'sxr.', 'a__', 'input_', '_', 'x-'][int(rng.integers(0, 6))]][int(rng.integers(0, 4))], rs=[seed, 19, i]))       # any string is a prefix, used as it is
            i += 1
    return cases


def run_case(case, R):
    with instr.fp_guard(), np.errstate(all='ignore'):
        globals()['run_' + case['lane']](case, R)


def db(x):
    with np.errstate(all='ignore'):
        return 10 * np.log10(x)


def run_sisdr(case, R):
    from pb_bss.evaluation import si_sdr
    rng = gen.rng_of(case)
    T, lead = case['T'], tuple(case['lead'])
    s = rng.standard_normal((*lead, T)) * case['scale']
    e = 0.7 * s / case['scale'] + rng.standard_normal((*lead, T)) * 10 ** rng.uniform(-7.5, 1)       # SI-SDR from -20 dB up to ~150 dB
    if case['rs'][-1] % 4 == 0:
        # zero padding / a muted segment / a gated estimate: exact zeros in estimate and/or reference (never an all-zero signal)
        z = rng.uniform(size=T) < rng.choice([0.05, 0.5])
        z[int(rng.integers(T))] = True; z[int(rng.integers(T))] = False
        which = int(rng.integers(3))
        if which in (0, 2):
            e = e.copy(); e[..., z] = 0
        if which in (1, 2):
            s = s.copy(); s[..., np.roll(z, 1)] = 0
    sb, eb = s.copy(), e.copy()
    got = np.asarray(si_sdr(s, e))
    R.check('C19.sisdr', np.array_equal(s, sb) and np.array_equal(e, eb), 'sisdr/purity', 'arguments modified')
    ref = np.empty(lead)
    for idx in np.ndindex(*lead):
        ss, ee = s[idx], e[idx]
        alpha = float(np.dot(ss, ee) / np.dot(ss, ss))
        ref[idx] = 10 * np.log10(np.sum((alpha * ss) ** 2) / np.sum((ee - alpha * ss) ** 2))
    amp = 40 * np.finfo(float).eps * 10 ** (float(np.max(ref)) / 20)          # rounding of s_hat - alpha s, amplified at high SI-SDR
    if got.shape != ref.shape:
        R.fail('C19.sisdr', 'sisdr/shape', f'si_sdr of signals {s.shape} has shape {got.shape}, not one value per leading index {ref.shape}', lead=list(lead), T=T)
        return
    if not np.isfinite(ref).all():
        # estimate and reference with disjoint supports: alpha = 0 and the defined value is -inf dB; nothing further to compare
        R.check('C19.sisdr', np.array_equal(np.isneginf(ref), np.isneginf(got)) and not np.isnan(got).any(), 'sisdr/orthogonal', 'si_sdr of an estimate orthogonal to the reference is not -inf where the definition is')
        return
    dv = float(np.abs(got - ref).max())
    R.check('C19.sisdr', got.shape == ref.shape and dv <= 1e-8 + amp, 'sisdr/value', f'si_sdr deviates from 10 log10(|alpha s|^2/|s_hat - alpha s|^2) by {dv:.3e} dB', dev=dv, lead=list(lead), T=T)
    for name, (a, b) in {'estimate': (1.0, float(rng.choice([-1, 1]) * 10 ** rng.uniform(-6, 6))), 'reference': (float(rng.choice([-1, 1]) * 10 ** rng.uniform(-6, 6)), 1.0)}.items():
        g2 = np.asarray(si_sdr(s * a, e * b))
        d2 = float(np.abs(g2 - got).max())
        R.check('C19.sisdr', d2 <= 1e-7 + 10 * amp, f'sisdr/scale-invariance/{name}', f'si_sdr changes by {d2:.3e} dB when the {name} is rescaled by {b if name == "estimate" else a:.3g}', dev=d2)
    if lead:
        idx = tuple(int(rng.integers(n_)) for n_ in lead)
        one = float(si_sdr(s[idx], e[idx]))
        R.check('C19.sisdr', abs(one - got[idx]) <= 1e-10, 'sisdr/per-index', 'si_sdr of a stack differs from the slice alone')
        R.mark_nontrivial('sisdr', list(lead), T)
    R.sample(dict(lane='sisdr', lead=list(lead), T=T, value=float(np.ravel(got)[0])))


def as_tuple(res, prefix=''):
    if isinstance(res, dict):
        return res[prefix + 'sdr'], res[prefix + 'sir'], res[prefix + 'snr']
    return res.sdr, res.sir, res.snr


def check_dict(R, fn_name, res, rd):
    if rd is False:
        R.check('C19.dict', not isinstance(res, dict) and hasattr(res, 'sdr'), f'dict/{fn_name}/tuple', 'return_dict=False must give the result tuple')
        return ''
    pre = '' if rd is True else rd
    ok = isinstance(res, dict) and set(res.keys()) == {pre + 'sdr', pre + 'sir', pre + 'snr'}
    R.check('C19.dict', ok, f'dict/{fn_name}/{"true" if rd is True else "prefix"}', f'{fn_name}(return_dict={rd!r}) returned {type(res).__name__}' + (f' with keys {sorted(res.keys())}' if isinstance(res, dict) else ''))
    return pre if ok else None


def identities(R, mon, sdr, sir, snr, key):
    sdr, sir, snr = np.asarray(sdr, float), np.asarray(sir, float), np.asarray(snr, float)
    lhs = 10 ** (-sdr / 10)
    rhs = 10 ** (-sir / 10) + 10 ** (-snr / 10)
    dv = float(np.abs(lhs - rhs).max() / np.abs(rhs).max()) if rhs.size else 0.0
    R.check(mon, dv <= 1e-9, f'{key}/harmonic-identity', f'1/SDR != 1/SIR + 1/SNR (relative {dv:.3e})', dev=dv)
    R.check(mon, bool((sdr <= np.minimum(sir, snr) + 1e-9).all()), f'{key}/sdr-bound', 'SDR exceeds min(SIR, SNR)')


def run_input(case, R):
    from pb_bss.evaluation.sxr_module import input_sxr
    rng = gen.rng_of(case)
    K, D, T = case['K'], case['M'], case['T']
    span = 2 if rng.uniform() < 0.7 else 5          # level differences between the source images of up to 200 dB (a dominant and a barely audible source)
    images = rng.standard_normal((K, D, T)) * 10 ** rng.uniform(-span, span, size=(K, D, 1)) * case['scale']
    noise = rng.standard_normal((D, T)) * 10 ** rng.uniform(-2, 1) * case['scale']
    ib, nb = images.copy(), noise.copy()
    rd = case['rd']
    if case['rs'][-1] % 2:
        res = input_sxr(images, noise, average_sources=case['avg_s'], average_channels=case['avg_c'], return_dict=rd)
    else:
        res = input_sxr(images, noise, case['avg_s'], case['avg_c'], return_dict=rd)          # the two averaging options in their positional order
    R.check('C19.input', np.array_equal(images, ib) and np.array_equal(noise, nb), 'input/purity', 'arguments modified')
    pre = check_dict(R, 'input_sxr', res, rd)
    if pre is None:
        return
    sdr, sir, snr = as_tuple(res, pre)
    # explicit reference
    S = np.array([[np.mean(images[k, d] ** 2) for d in range(D)] for k in range(K)])
    N = np.array([np.mean(noise[d] ** 2) for d in range(D)])
    I = np.array([[sum(S[j, d] for j in range(K) if j != k) for d in range(D)] for k in range(K)])
    if case['avg_c']:
        S_, I_, N_ = S.mean(1), I.mean(1), N.mean()
    else:
        S_, I_, N_ = S, I, N[None, :]
    r_sdr, r_sir, r_snr = db(S_ / (I_ + N_)), db(S_ / I_), db(S_ / N_ * np.ones_like(S_))
    identities(R, 'C19.input', r_sdr, r_sir, r_snr, 'input/reference-self-check')
    if case['avg_s']:
        r_sdr, r_sir, r_snr = r_sdr.mean(0), r_sir.mean(0), r_snr.mean(0)
    for nm, g, r_ in (('sdr', sdr, r_sdr), ('sir', sir, r_sir), ('snr', snr, r_snr)):
        g = np.asarray(g, float)
        ok = g.shape == np.shape(r_) and (np.allclose(g, r_, rtol=0, atol=1e-8, equal_nan=True))
        R.check('C19.input', ok, f'input/value/{nm}', f'input_sxr {nm} deviates from the explicit power ratios (shape {g.shape} vs {np.shape(r_)})', avg_s=case['avg_s'], avg_c=case['avg_c'], K=K, D=D)
    un = input_sxr(images, noise, average_sources=False, average_channels=case['avg_c'])
    identities(R, 'C19.input', un.sdr, un.sir, un.snr, 'input')
    if case['avg_s']:
        for nm, g, u in (('sdr', sdr, un.sdr), ('sir', sir, un.sir), ('snr', snr, un.snr)):
            R.check('C19.input', np.allclose(g, np.mean(u, axis=0), rtol=0, atol=1e-9, equal_nan=True), f'input/average/{nm}', 'averaged output is not the mean of the unaveraged ones')
    c = float(10 ** rng.uniform(-6, 6) * rng.choice([-1, 1]))
    r2 = input_sxr(images * c, noise * c, average_sources=False, average_channels=case['avg_c'])
    R.check('C19.input', all(np.allclose(a, b, rtol=0, atol=1e-7, equal_nan=True) for a, b in zip(r2, un)), 'input/common-rescaling', 'common rescaling changes the ratios')
    r3 = input_sxr(images * c, noise, average_sources=False, average_channels=case['avg_c'])
    R.check('C19.input', np.allclose(r3.snr, un.snr + 20 * np.log10(abs(c)), rtol=0, atol=1e-7) and np.allclose(r3.sir, un.sir, rtol=0, atol=1e-7, equal_nan=True), 'input/image-rescaling',
            'scaling the images by c must move SNR by 20 log10 |c| and leave SIR')
    if K >= 2:
        R.mark_nontrivial('input', K, D, case['avg_s'], case['avg_c'], str(rd))
    R.sample(dict(lane='input', K=K, D=D, T=T, avg_s=case['avg_s'], avg_c=case['avg_c'], return_dict=rd))


def run_output(case, R):
    from pb_bss.evaluation.sxr_module import output_sxr
    rng = gen.rng_of(case)
    Ks, T = case['K'], case['T']
    Kt = max(Ks, case['M'])
    img = rng.standard_normal((Ks, Kt, T)) * 10 ** rng.uniform(-2, 1, size=(Ks, Kt, 1)) * case['scale']
    # make one output dominant per source most of the time, but keep ties / ambiguity possible
    for k in range(Ks):
        img[k, (k * 2) % Kt] *= 10 ** rng.uniform(0, 2)
    noise = rng.standard_normal((Kt, T)) * 10 ** rng.uniform(-2, 0) * case['scale']
    if case['rs'][-1] % 4 == 0 and Ks >= 2:
        # two assignments of outputs to sources that capture almost (not exactly) the same power: the maximiser must still win
        P_ = np.mean(img ** 2, axis=-1)
        a, b = 0, 1
        ja, jb = (a * 2) % Kt, (b * 2) % Kt
        if ja != jb:
            delta = float(10 ** rng.uniform(-6, -4))
            want = (P_[a, ja] + P_[b, jb]) * (1 - delta) - P_[a, jb]        # power of source b in output ja so that the swap captures (1 - delta) of it
            if want > 0:
                img[b, ja] *= np.sqrt(want / P_[b, ja])
    ib, nb = img.copy(), noise.copy()
    rd = case['rd']
    res = output_sxr(img, noise, average_sources=case['avg_s'], return_dict=rd)
    R.check('C19.output', np.array_equal(img, ib) and np.array_equal(noise, nb), 'output/purity', 'arguments modified')
    pre = check_dict(R, 'output_sxr', res, rd)
    if pre is None:
        return
    sdr, sir, snr = as_tuple(res, pre)
    S = np.array([[np.mean(img[k, j] ** 2) for j in range(Kt)] for k in range(Ks)])
    N = np.array([np.mean(noise[j] ** 2) for j in range(Kt)])
    sels = list(itertools.permutations(range(Kt), Ks))
    cap = np.array([sum(S[k, sel[k]] for k in range(Ks)) for sel in sels])
    order = np.argsort(cap)
    best = sels[order[-1]]
    if len(sels) > 1 and (cap[order[-1]] - cap[order[-2]]) < 1e-9 * cap[order[-1]]:
        R.undecided('C19.output', 'near-tie between output selections')
        return
    SS = np.array([S[k, best[k]] for k in range(Ks)])
    II = np.array([sum(S[j, best[k]] for j in range(Ks) if j != k) for k in range(Ks)])
    NN = N[list(best)]
    r_sdr, r_sir, r_snr = db(SS / (II + NN)), db(SS / II), db(SS / NN)
    un = output_sxr(img, noise, average_sources=False)
    for nm, g, r_ in (('sdr', un.sdr, r_sdr), ('sir', un.sir, r_sir), ('snr', un.snr, r_snr)):
        R.check('C19.output', np.shape(g) == r_.shape and np.allclose(g, r_, rtol=0, atol=1e-8, equal_nan=True), f'output/value/{nm}',
                f'output_sxr {nm} deviates from the power ratios of the power-maximising selection', Ks=Ks, Kt=Kt)
    identities(R, 'C19.output', un.sdr, un.sir, un.snr, 'output')
    if case['avg_s']:
        for nm, g, u in (('sdr', sdr, un.sdr), ('sir', sir, un.sir), ('snr', snr, un.snr)):
            R.check('C19.output', np.allclose(g, np.mean(u), rtol=0, atol=1e-9, equal_nan=True), f'output/average/{nm}', 'averaged output is not the mean of the unaveraged ones')
    p = rng.permutation(Kt)
    rp = output_sxr(img[:, p], noise[p], average_sources=False)
    R.check('C19.output', all(np.allclose(a, b, rtol=0, atol=1e-9, equal_nan=True) for a, b in zip(rp, un)), 'output/permutation-invariance', 'result depends on the order of the estimated outputs', perm=p.tolist())
    c = float(10 ** rng.uniform(-6, 6))
    rc = output_sxr(img * c, noise * c, average_sources=False)
    R.check('C19.output', all(np.allclose(a, b, rtol=0, atol=1e-7, equal_nan=True) for a, b in zip(rc, un)), 'output/common-rescaling', 'common rescaling changes the ratios')
    ri = output_sxr(img * c, noise, average_sources=False)
    R.check('C19.output', np.allclose(ri.snr, un.snr + 20 * np.log10(c), rtol=0, atol=1e-7) and np.allclose(ri.sir, un.sir, rtol=0, atol=1e-7, equal_nan=True), 'output/image-rescaling',
            'scaling the images by c must move SNR by 20 log10 c and leave SIR')
    if Ks >= 2:
        R.mark_nontrivial('output', Ks, Kt, case['avg_s'], str(rd))
    R.sample(dict(lane='output', Ks=Ks, Kt=Kt, T=T, avg_s=case['avg_s'], return_dict=rd, selection=list(best)))


def run_snr(case, R):
    from pb_bss.evaluation.sxr_module import get_snr, set_snr
    rng = gen.rng_of(case)
    T, lead = case['T'], tuple(case['lead'])
    cplx = bool(rng.integers(0, 2))
    X = (gen.cnormal(rng, (*lead, T)) if cplx else rng.standard_normal((*lead, T))) * case['scale']
    Nn = (gen.cnormal(rng, (*lead, T)) if cplx else rng.standard_normal((*lead, T))) * 10 ** rng.uniform(-3, 3)
    if case['rs'][-1] % 3 == 0:
        T2 = int(rng.choice([T // 2 + 1, 2 * T, T + 7]))           # target and noise of different lengths (powers are means, not sums)
        Nn = (gen.cnormal(rng, (*lead, T2)) if cplx else rng.standard_normal((*lead, T2))) * 10 ** rng.uniform(-3, 3)
    snr = float(rng.uniform(-30, 40)) if rng.uniform() < 0.6 else float(rng.integers(-3, 4) * 5)       # dB grids: 0 dB exactly is a request like any other
    Xb, Nb = X.copy(), Nn.copy()
    X2, N2 = set_snr(X, Nn, snr, inplace=False)
    R.check('C19.snr', np.array_equal(X, Xb) and np.array_equal(Nn, Nb), 'snr/purity-not-inplace', 'set_snr(inplace=False) modified its arguments')
    got = float(get_snr(X2, N2))
    R.check('C19.snr', abs(got - snr) <= 1e-8, 'snr/round-trip', f'get_snr(set_snr(..., {snr:.3f})) = {got:.6f}', dev=abs(got - snr))
    Nc = Nn.copy()
    r = set_snr(X, Nc, snr, inplace=True)
    R.check('C19.snr', np.array_equal(X, Xb) and r is None and abs(float(get_snr(X, Nc)) - snr) <= 1e-8, 'snr/inplace', 'set_snr(inplace=True) must rescale only N to the requested SNR')
    # re-levelling: a second request (far from or very near to the current level - fine adjustment by 1e-3 .. 1e-6 dB) is honoured too
    for delta in (float(rng.uniform(-20, 20)), float(rng.choice([-1, 1]) * 10 ** rng.uniform(-6, -3))):
        snr2 = snr + delta
        X3, N3 = set_snr(X2, N2, snr2, inplace=False)
        got2 = float(get_snr(X3, N3))
        R.check('C19.snr', abs(got2 - snr2) <= 1e-8, 'snr/round-trip-second', f'after set_snr to {snr:.6f} dB, set_snr to {snr2:.6f} dB gives get_snr = {got2:.8f}', dev=abs(got2 - snr2), delta=delta)
    if case['rs'][-1] % 4 == 1:
        # noise recorded in single precision, levelled in place (the documented default): the caller's own array must carry the new level
        Xs, Ns = X.astype(np.complex64 if cplx else np.float32), Nn.astype(np.complex64 if cplx else np.float32)
        Nsb = Ns.copy()
        try:
            r = set_snr(Xs, Ns, snr, inplace=True)
            got = float(get_snr(Xs, Ns))
            R.check('C19.snr', r is None and Ns.dtype == Nsb.dtype and abs(got - snr) <= 1e-3, 'snr/inplace-single', f'set_snr(inplace=True) on {Ns.dtype} noise leaves get_snr = {got:.5f} dB instead of {snr:.5f} dB', dev=abs(got - snr))
        except Exception as e:
            if not instr.is_library_exception(e):
                raise
            R.fail('C19.snr', 'snr/inplace-single', f'set_snr(inplace=True) raised {type(e).__name__} for {Nsb.dtype} noise: {str(e)[:100]}')
    R.mark_nontrivial('snr', list(lead), cplx)

"""C15 - oracle alignment is optimal and undoes any per-frequency permutation."""
import itertools

import numpy as np
import scipy.optimize

from vmon import conds, gen, instr

from vmon.scale import S

ID = 'C15'
RULE = ('cases = (a) score matrices K <= 6 (random float / integer, all matrices over {0,1,2} for K <= 3): the optimal algorithm attains the '
        'linear-sum-assignment optimum (and the brute-force maximum) and is never below greedy; (b) references with pairwise distinct '
        'normalised non-zero rows per bin, permuted by every (K!)^F field for K <= 3, F in {1, 3} and by sampled fields beyond (K <= 6, '
        'F <= 65): Oracle(metric, algorithm)(permuted, ref) == ref bitwise for cos / euclidean / multiply and both algorithms; (c) a '
        'global permutation resolved on (K, F*T) flattened inputs; non-trivial = field not constant over frequency / matrix with '
        'greedy != optimal; distinct by (lane, K, F, metric, algorithm)')
DECIDING = ['C15.optimal', 'C15.invert', 'C15.global']
MIN_DECIDED = {'quick': 300, 'thorough': 3000}
EXHAUSTIVE_NOTE = 'all score matrices over {0,1,2} for K <= 3; all (K!)^F permutation fields for K <= 3, F in {1, 3} (1 + 6 + 8 + 216 fields per metric/algorithm)'
ASSUMPTIONS = ['scipy.optimize.linear_sum_assignment is the reference optimum']
METRICS = ['cos', 'euclidean', 'multiply']


def plan(tier, seed):
    rng = np.random.default_rng([seed, 115])
    pick = lambda xs: xs[int(rng.integers(len(xs)))]
    cases = [dict(lane='exh-matrix', K=K, rs=[seed, 15, K]) for K in (1, 2, 3)]
    for K in (1, 2, 3):
        for F in (1, 3):
            for metric in METRICS:
                for alg in ('greedy', 'optimal'):
                    cases.append(dict(lane='exh-field', K=K, F=F, metric=metric, alg=alg, rs=[seed, 16, K, F]))
    i = 100
    n = S(tier, 200, 2000)
    for r in range(n):
        cases.append(dict(lane='matrix', K=int(rng.integers(1, 7)), lead=pick([[], [4], [2, 3], [3, 3]]), dtype=pick(['float', 'int', 'ties', 'uint8', 'uint16', 'bool', 'int8', 'float-neg', 'float-neg', 'float-huge']), rs=[seed, 17, i])); i += 1
    for r in range(n):
        refk = pick(['onehot-ish', 'continuous', 'soft', 'similar', 'int8-binary', 'bool-binary', 'quiet', 'quiet32', 'signed', 'antipodal'])
        cases.append(dict(lane='field', K=int(rng.integers(1, 7)), F=int(pick([1, 3, 5, 9, 33, 65, 129, 257])), T=int(rng.integers(2, 40)) if 'binary' not in refk else int(pick([60, 400, 1000])),
                          metric=(pick(METRICS) if not refk.startswith('quiet') else 'cos') if 'binary' not in refk else ('cos' if refk == 'bool-binary' else pick(['cos', 'euclidean'])),   # boolean arrays cannot be subtracted (explicit TypeError)
                          alg=pick(['greedy', 'optimal']),
                          ref=refk, rs=[seed, 18, i])); i += 1
    for r in range(n // 2):
        cases.append(dict(lane='global', K=int(rng.integers(1, 7)), F=int(pick([1, 3, 5, 9])), T=int(rng.integers(2, 30)), metric=pick(METRICS), alg=pick(['greedy', 'optimal']), rs=[seed, 19, i])); i += 1
    return cases


def run_case(case, R):
    with instr.fp_guard():
        globals()['run_' + case['lane'].replace('-', '_')](case, R)


def check_optimal(R, sm, info):
    from pb_bss import permutation_alignment as pa
    K = sm.shape[-1]
    try:
        mo = pa._mapping_from_score_matrix(sm, 'optimal')
        mg = pa._mapping_from_score_matrix(sm, 'greedy')
    except Exception as e:
        if not instr.is_library_exception(e):
            raise
        R.fail('C15.optimal', 'optimal/raised', f'{type(e).__name__}: {str(e)[:100]}', **info)
        return None
    want = (K, *sm.shape[:-2])
    if np.shape(mo) != want or np.shape(mg) != want:
        R.fail('C15.optimal', 'optimal/shape', f'mapping of shape {np.shape(mo)} / {np.shape(mg)} for a score matrix stack {sm.shape} (documented: {want})', **info)
        return None
    if not (conds.is_perm_columns(mo) and conds.is_perm_columns(mg)):
        R.fail('C15.optimal', 'optimal/not-a-permutation', 'mapping is not a permutation', **info)
        return None
    differ = False
    for idx in np.ndindex(*sm.shape[:-2]):
        s = sm[idx].astype(float)
        if np.abs(s).max(initial=0.0) > 1e150:
            s = s / np.abs(s).max()          # the comparisons below are scale free; keeps the monitor's own sums finite
        po = mo[(slice(None), *idx)]
        pg = mg[(slice(None), *idx)]
        tot = s[range(K), po].sum()
        totg = s[range(K), pg].sum()
        r, c = scipy.optimize.linear_sum_assignment(-s)
        best = s[r, c].sum()
        sc = max(1.0, float(np.abs(s).sum()))
        R.check('C15.optimal', abs(tot - best) <= 1e-12 * sc, 'optimal/below-lsa-optimum', f'optimal algorithm total {tot} != linear_sum_assignment optimum {best}', **info)
        R.check('C15.optimal', tot >= totg - 1e-12 * sc, 'optimal/below-greedy', f'optimal total {tot} < greedy total {totg}', **info)
        if K <= 5:
            brute = max(s[range(K), list(p)].sum() for p in itertools.permutations(range(K)))
            R.check('C15.optimal', abs(tot - brute) <= 1e-12 * sc, 'optimal/below-brute-force', f'optimal total {tot} != brute-force maximum {brute}', **info)
        differ |= (tot - totg) > 1e-12 * sc
    return differ


def run_exh_matrix(case, R):
    K = case['K']
    n = 0
    for vals in itertools.product((0, 1, 2), repeat=K * K):
        check_optimal(R, np.array(vals).reshape(K, K), dict(K=K, exhaustive=True))
        n += 1
    R.count(f'exhaustive matrices K={K}', n)
    R.mark_nontrivial('exh-matrix', K)


def run_matrix(case, R):
    rng = gen.rng_of(case)
    K, lead = case['K'], tuple(case['lead'])
    if case['dtype'] == 'float':
        sm = rng.standard_normal((*lead, K, K)) * 10 ** rng.uniform(-2, 2)
        if case['rs'][-1] % 4 == 0:
            sm = 1000.0 + 0.01 * rng.uniform(size=(*lead, K, K))       # totals that differ only in the 6th significant digit
    elif case['dtype'] == 'float-neg':
        sm = -np.abs(rng.standard_normal((*lead, K, K))) * 10 ** rng.uniform(-2, 2)       # all scores negative (negated distances)
    elif case['dtype'] == 'float-huge':
        # finite scores near the top of the float range (similarities of masks kept at a huge level): every entry and every total of
        # K entries is representable, the sum over the whole stack of matrices is not
        sm = rng.uniform(0.2, 1.0, size=(*lead, K, K)) * (1.7e308 / (K + 1)) * rng.choice([1.0, -1.0])
    elif case['dtype'] == 'int':
        sm = rng.integers(-50, 50, size=(*lead, K, K))
    elif case['dtype'] in ('uint8', 'uint16', 'int8'):
        # overlap counts as einsum of narrow integer masks produces them (the dtype is kept); totals stay inside the dtype
        sm = rng.integers(0, np.iinfo(case['dtype']).max // 8 + 1, size=(*lead, K, K)).astype(case['dtype'])
    elif case['dtype'] == 'bool':
        sm = rng.uniform(size=(*lead, K, K)) < 0.5
    else:
        sm = rng.integers(0, 3, size=(*lead, K, K)).astype(float)
    if case['rs'][-1] % 3 == 0:
        sm = np.ascontiguousarray(np.swapaxes(sm, -1, -2)).swapaxes(-1, -2) if case['rs'][-1] % 2 else np.asfortranarray(sm)
    d = check_optimal(R, sm, dict(K=K, lead=list(lead), dtype=case['dtype']))
    if d:
        R.mark_nontrivial('matrix', K, list(lead), case['dtype'])
    R.sample(dict(lane='matrix', K=K, dtype=case['dtype'], greedy_differs=bool(d)))


def reference(rng, kind, K, F, T):
    """reference mask whose rows are pairwise distinct after normalisation and non-zero in every bin."""
    if kind == 'similar':
        base = rng.uniform(0.3, 1.0, size=(1, F, T))
        return base * (1 + 2e-3 * rng.uniform(-1, 1, size=(K, F, T))) * (1 + 0.01 * np.arange(K)[:, None, None])
    if kind in ('int8-binary', 'bool-binary'):
        for _ in range(100):
            lab = rng.integers(0, K, size=(F, T))
            ref = (lab[None] == np.arange(K)[:, None, None])
            if ref.any(axis=-1).all():
                return ref.astype(np.int8) if kind == 'int8-binary' else ref
        return None
    for _ in range(100):
        if kind == 'onehot-ish':
            lab = rng.integers(0, K, size=(F, T))
            for f in range(F):
                lab[f, :K] = np.arange(K) if T >= K else np.arange(K)[:T]
            ref = (lab[None] == np.arange(K)[:, None, None]).astype(float) * rng.uniform(0.5, 1.0, size=(K, F, T)) + 0.01 * rng.uniform(size=(K, F, T))
        elif kind == 'soft':
            ref = np.moveaxis(rng.dirichlet([0.3] * K, size=(F, T)), -1, 0) + 1e-3
        elif kind in ('signed', 'antipodal'):
            # real masks with entries of both signs (e.g. centred features); 'antipodal': one class row is the exact negative of another
            ref = rng.standard_normal((K, F, T))
            if kind == 'antipodal' and K >= 2:
                ref[1] = -ref[0]
        else:
            ref = rng.uniform(0.05, 1.0, size=(K, F, T))
        if kind.startswith('quiet'):
            # classes that are (nearly) inactive in some bins: rows of magnitude 1e-18 (1e-9 in single precision) next to O(1) rows.
            # Their normalised rows are as distinct as before, which is all the cosine score looks at (the other metrics compare
            # un-normalised rows, where such classes differ from each other below rounding: not sampled for them)
            lvl = np.where(rng.uniform(size=(K, F, 1)) < 0.5, 1e-9 if kind == 'quiet32' else 1e-18, 1.0)
            ref = ref * lvl
            if kind == 'quiet32':
                ref = ref.astype(np.float32)
        n = ref / np.linalg.norm(ref.astype(float), axis=-1, keepdims=True)
        ok = True
        for a in range(K):
            for b in range(a):
                if np.abs(n[a] - n[b]).max(axis=-1).min() < 1e-3:
                    ok = False
        if ok:
            return ref
    return None


def invert(R, ref, field, metric, alg, info):
    from pb_bss import permutation_alignment as pa
    K, F, T = ref.shape
    est = pa.apply_mapping(ref, field)
    try:
        out = pa.OraclePermutationAlignment(similarity_metric=metric, algorithm=alg)(est, ref)
    except Exception as e:
        if not instr.is_library_exception(e):
            raise
        R.fail('C15.invert', f'invert/raised/{metric}/{alg}', f'{type(e).__name__}: {str(e)[:100]}', **info)
        return
    R.check('C15.invert', out.shape == ref.shape and np.array_equal(out, ref), f'invert/{metric}/{alg}', f'oracle aligner ({metric}, {alg}) does not return the reference from a per-frequency permutation of it',
            bins_wrong=int((out != ref).any(axis=(0, 2)).sum()) if out.shape == ref.shape else -1, **info)


def run_exh_field(case, R):
    rng = gen.rng_of(case)
    K, F = case['K'], case['F']
    T = 6
    ref = reference(rng, 'continuous', K, F, T)
    perms = list(itertools.permutations(range(K)))
    n = 0
    for combo in itertools.product(perms, repeat=F):
        field = np.array(combo).T.reshape(K, F)
        invert(R, ref, field, case['metric'], case['alg'], dict(K=K, F=F, exhaustive=True))
        n += 1
    R.count(f'exhaustive fields K={K} F={F}', n)
    R.mark_nontrivial('exh-field', K, F, case['metric'], case['alg'])


def run_field(case, R):
    from pb_bss import permutation_alignment as pa
    rng = gen.rng_of(case)
    K, F, T = case['K'], case['F'], case['T']
    ref = reference(rng, case['ref'], K, F, T)
    if ref is None:
        R.undecided('C15.invert', 'no reference with distinct rows found')
        return
    field = pa.sample_random_mapping(K, F, random_state=np.random.RandomState(int(rng.integers(2 ** 31))))
    invert(R, ref, field, case['metric'], case['alg'], dict(K=K, F=F, T=T, ref=case['ref']))
    if K >= 2 and F >= 3 and not (field == field[:, :1]).all():
        R.mark_nontrivial('field', K, F, case['metric'], case['alg'], case['ref'])
    R.sample(dict(lane='field', K=K, F=F, T=T, metric=case['metric'], alg=case['alg'], ref=case['ref'], field=field[:, :4].tolist()))


def run_global(case, R):
    from pb_bss import permutation_alignment as pa
    rng = gen.rng_of(case)
    K, F, T = case['K'], case['F'], case['T']
    ref = reference(rng, 'continuous', K, F, T)
    perm = rng.permutation(K)
    est = ref[perm]                      # a purely global permutation
    al = pa.OraclePermutationAlignment(similarity_metric=case['metric'], algorithm=case['alg'])
    try:
        mapping = al.calculate_mapping(est.reshape(K, F * T), ref.reshape(K, F * T))
    except Exception as e:
        if not instr.is_library_exception(e):
            raise
        R.fail('C15.global', 'global/raised', f'{type(e).__name__}: {str(e)[:100]}', K=K, F=F, T=T)
        return
    mapping = np.asarray(mapping)
    ok = mapping.shape == (K,) and sorted(mapping.tolist()) == list(range(K)) and np.array_equal(est[mapping], ref)
    R.check('C15.global', ok, f'global/{case["metric"]}/{case["alg"]}', 'global permutation not resolved on flattened (K, F*T) inputs: est[mapping] != ref', K=K, F=F, T=T, perm=perm.tolist(), mapping=mapping.tolist())
    if K >= 2:
        R.mark_nontrivial('global', K, case['metric'], case['alg'])


def post_verdict(M, tier):
    c = M['counters']
    out = []
    for K, n in ((1, 3), (2, 81), (3, 19683)):
        if c.get(f'exhaustive matrices K={K}', 0) != n:
            out.append(f'exhaustive matrix lane K={K} incomplete')
    for K in (1, 2, 3):
        for F in (1, 3):
            import math
            if c.get(f'exhaustive fields K={K} F={F}', 0) != 6 * math.factorial(K) ** F:
                out.append(f'exhaustive field lane K={K} F={F} incomplete')
    return out

"""C09 - fitted parameters stay inside their documented domain."""
import numpy as np

from vmon import domain, gen, instr, models, scen
from vmon.oracles import unit as oracles_unit

from vmon.scale import S

ID = 'C09'
RULE = ('cases = fits of all seven mixture trainers and the six single-distribution trainers on degenerate data (zero, duplicated, '
        'collinear / low-rank, fewer frames than channels, single frame, 300 dB dynamic range, single precision) from Dirichlet, '
        'blurred and hard one-hot starts with every class non-empty, over all trainer options; every returned and every in-loop '
        'model (hook) goes through the domain contract; non-trivial = a flooring / clipping guard was active in the case '
        '(counted from the returned parameters); distinct by (kind, input class, options, K, D, N, lead)')
DECIDING = ['C09.model', 'C09.trace', 'C09.dist']
MIN_DECIDED = {'quick': 150, 'thorough': 1500}
NEEDS_HOOK = True
CASE_TIMEOUT = {'quick': 240, 'thorough': 1200}
ASSUMPTIONS = ['a fit that raises returns no model and is counted as raised', 'a class that loses all its mass during EM has left the stated domain (positive class mass)']
CLASSES = ['zeros', 'dup', 'lowrank', 'short', 'short1', 'ragged', 'scaled_up', 'scaled_down', 'gauss', 'zerobin', 'zeroclass']


def plan(tier, seed):
    rng = np.random.default_rng([seed, 109])
    n = S(tier, 30, 300)
    pick = lambda xs: xs[int(rng.integers(len(xs)))]
    cases, i = [], 0
    for kind in models.KINDS:
        for r in range(n if kind != 'cbmm' else max(5, n // 5)):
            cls = CLASSES[r % len(CLASSES)]
            K = int(rng.integers(2, 5)); D = int(rng.integers(2, 9))
            if kind == 'cbmm':
                K = int(rng.integers(2, 4)); D = int(rng.integers(2, 5))
            lead = [pick([1, 3])] if kind in models.INTEGRATION else (pick([[], [1], [3], [2, 2]]) if kind != 'cbmm' else pick([[], [2]]))
            if cls == 'short':
                N = int(pick([2, max(2, D - 1), D])); ccls = 'gauss'
            elif cls == 'short1':
                N = 1; ccls = 'gauss'
            elif cls in ('zerobin', 'zeroclass'):
                N = int(rng.integers(3 * K, 10 * K + 8)); ccls = 'gauss'
            else:
                N = int(rng.integers(3 * K, 10 * K + 8)); ccls = cls
            real = kind in models.REAL
            dtype = ('f32' if real else 'c64') if rng.uniform() < 0.15 else ('f64' if real else 'c128')
            init = pick(['onehot', 'onehot', 'onehot:bool', 'onehot:int', 'dirichlet:1', 'dirichlet:0.1', 'blur:0.3', 'indep'])
            if N < K:
                init = 'dirichlet:1'
            if cls == 'zeroclass':
                init = 'onehot'
            o = scen.sample_opts(rng, kind, lead)
            o.pop('aligner', None)
            if r % 8 == 5:
                o['saliency'] = 'tiny'          # observation weights of a very quiet recording: positive, total mass 1e-14 .. 1e-8
            iters = int(pick([1, 2, 3, 5, 10])) if kind != 'cbmm' else int(pick([1, 2]))
            cases.append(dict(lane='mixture', kind=kind, cls=ccls, tag=cls, K=K, N=N, D=D, lead=lead, dtype=dtype, init=init, iters=iters, opts=o, offset=float(pick([0, 0, 0, 1e5])) if kind in ('gmm', 'gcacgmm') and cls == 'gauss' else 0.0, rs=[seed, 9, i]))
            i += 1
    m = S(tier, 20, 200)
    for fam in ('gauss', 'diag', 'spher', 'ccsg', 'vmf', 'watson', 'cacg', 'bingham'):
        for r in range(m if fam != 'bingham' else max(5, m // 4)):
            D = int(rng.integers(2, 8)) if fam != 'bingham' else int(rng.integers(2, 5))
            cases.append(dict(lane='dist', fam=fam, D=D, N=int(pick([1, 2, D, D + 1, 3 * D, 30])), lead=pick([[], [2], [2, 2]]) if fam != 'bingham' else [],
                              cls=CLASSES[r % len(CLASSES)], saliency=pick(['none', 'pos', 'zeros', 'onehot']), rs=[seed, 10, i]))
            i += 1
    # nearly collinear classes for the families with a concentration bound (two or more parameters reach the bound together)
    for fam in ('bingham', 'watson', 'vmf'):
        for r in range(S(tier, 6, 40)):
            cases.append(dict(lane='dist', fam=fam, D=int(pick([3, 4, 4])) if fam == 'bingham' else int(rng.integers(2, 7)), N=int(pick([8, 20, 40])), lead=[] if fam == 'bingham' else pick([[], [2]]),
                              cls='collinear', saliency=pick(['none', 'pos']), max_concentration=float(pick([50, 500, 500, 1000])), rs=[seed, 12, i]))
            i += 1
    if tier == 'thorough':
        cases.append(dict(lane='suite', rs=[seed, 99, 0]))
    return cases


def run_case(case, R):
    if case['lane'] == 'suite':
        from vmon import suite_lane
        return suite_lane.run(R, ID)
    with instr.fp_guard():
        (run_mixture if case['lane'] == 'mixture' else run_dist)(case, R)


def guards_active(kind, model, copts):
    g = []
    if kind in ('cacgmm', 'gcacgmm', 'vmfcacgmm'):
        lam = np.asarray(model.cacg.covariance_eigenvalues)
        fl = copts.get('eigenvalue_floor', 1e-10)
        if copts.get('covariance_norm', 'eigenvalue') == 'eigenvalue':
            if (lam <= fl).any():
                g.append('cacg-floor')
        elif (lam <= fl * lam.max(-1, keepdims=True) * (1 + 1e-9)).any():
            g.append('cacg-floor')
    if kind == 'cwmm':
        k = np.asarray(model.complex_watson.concentration)
        if (k == 0).any() or (k >= copts.get('max_concentration', 500)).any():
            g.append('watson-clip')
    if kind in ('vmfmm', 'vmfcacgmm'):
        k = np.asarray(model.vmf.concentration)
        if (k <= copts.get('min_concentration', 1e-10)).any() or (k >= copts.get('max_concentration', 500)).any():
            g.append('vmf-clip')
    if kind == 'cbmm':
        lam = np.asarray(model.complex_bingham.covariance_eigenvalues)
        if np.isfinite(copts.get('max_concentration', np.inf)) and (lam <= -copts['max_concentration'] + 1e-6).any():
            g.append('bingham-clip')
    return g


def run_mixture(case, R):
    s = scen.build(case)
    kind = s.kind
    if case['tag'] == 'zerobin' and s.lead:
        s.data['y'][(0,) * len(s.lead)] = 0                       # a silent frequency bin: every frame is the zero vector
    if case['tag'] == 'zeroclass' and s.init is not None:
        z = np.broadcast_to(s.init, s.aff_shape)[..., 0, :] > 0.5  # all frames a hard start gives to class 0 are zero vectors
        s.data['y'][z] = 0
    try:
        with instr.options(**s.copts), instr.capture() as ev:
            model = scen.fit(s)
    except Exception as e:
        if not instr.is_library_exception(e):
            raise
        R.count(f'fit raised {type(e).__name__}')
        R.ok('C09.raised')
        return
    mass, first_bad = scen.class_mass(s, ev)
    if first_bad is not None:
        R.count('left domain: a class lost all mass')
        R.undecided('C09.model', 'class without mass')
        return
    zero_prior = any((np.asarray(e['model'].weight, dtype=float) == 0).any() for e in ev[:-1])
    domain.check_model(R, model, dict(s.copts, zero_columns_ok=True) if zero_prior else s.copts, monitor='C09.model', where=f'{kind}.fit result')
    g = guards_active(kind, model, s.copts)
    for name in g:
        R.count('guard active: ' + name)
    if g or case['tag'] in ('zeros', 'dup', 'lowrank', 'short', 'short1', 'zerobin', 'zeroclass'):
        R.mark_nontrivial(kind, case['tag'], case['opts'], s.K, s.D, s.N, case['lead'], g)
    R.sample(dict(lane='mixture', kind=kind, cls=case['tag'], K=s.K, D=s.D, N=s.N, lead=case['lead'], opts=case['opts'], guards=g, iters=s.iterations))


def run_dist(case, R):
    from pb_bss import distribution as d
    from pb_bss.distribution.complex_bingham import ComplexBinghamTrainer
    rng = gen.rng_of(case)
    fam, D, N, lead = case['fam'], case['D'], case['N'], tuple(case['lead'])
    real = fam in ('gauss', 'diag', 'spher', 'vmf')
    y = rng.standard_normal((*lead, N, D)) if real else gen.cnormal(rng, (*lead, N, D))
    if real and case['rs'][-1] % 4 == 0 and case['cls'] not in ('ragged', 'scaled_up'):     # (1e150-fold gains on top of the offset would leave the range in which squares are finite)
        y = y + oracles_unit(rng.standard_normal((1,) * len(lead) + (1, D))) * float(rng.choice([1e4, 1e5, 1e6]))     # far from the origin
    cls = case['cls']
    if cls == 'collinear':
        a = (rng.standard_normal((*lead, 1, D)) if real else gen.cnormal(rng, (*lead, 1, D)))
        c = (rng.standard_normal((*lead, N, 1)) if real else gen.cnormal(rng, (*lead, N, 1)))
        if real:
            c = np.abs(c) + 0.1           # one direction (not an axis) for the vMF
        y = c * a + 10 ** rng.uniform(-6, -2) * y
        cls = 'gauss'
    if cls in ('short', 'short1'):
        cls = 'gauss'
    if cls in ('zerobin', 'zeroclass'):
        cls = 'zeros'
    if N >= 2 or cls in ('gauss', 'scaled_up', 'scaled_down', 'ragged'):
        y = gen.hostile(rng, y, cls, real=real) if not (cls == 'lowrank' and D < 2) else y
    sal = None
    if case['saliency'] == 'pos':
        sal = rng.uniform(0.1, 1, size=(*lead, N))
    elif case['saliency'] == 'zeros':
        sal = rng.uniform(0.1, 1, size=(*lead, N)) * (rng.uniform(size=(*lead, N)) < 0.7)
        sal[..., 0] = 0.5
    elif case['saliency'] == 'onehot':
        sal = np.zeros((*lead, N)); sal[..., int(rng.integers(N))] = 1.0
    opts = {}
    try:
        if fam in ('gauss', 'diag', 'spher'):
            m = d.GaussianTrainer().fit(y, saliency=sal, covariance_type={'gauss': 'full', 'diag': 'diagonal', 'spher': 'spherical'}[fam])
        elif fam == 'ccsg':
            m = d.ComplexCircularSymmetricGaussianTrainer().fit(y, saliency=sal)
        elif fam == 'vmf':
            m = d.VonMisesFisherTrainer().fit(y, saliency=sal)
        elif fam == 'watson':
            m = d.ComplexWatsonTrainer().fit(y, saliency=sal)
        elif fam == 'cacg':
            fl = float(rng.choice([1e-10, 1e-6])); nm = [None, 'eigenvalue', 'trace', False][int(rng.integers(1, 4))]
            opts = dict(eigenvalue_floor=fl, covariance_norm=nm)
            m = d.ComplexAngularCentralGaussianTrainer().fit(y, eigenvalue_floor=fl, covariance_norm=nm, iterations=int(rng.integers(1, 6)))
        else:
            mc = case.get('max_concentration', 500)
            opts = dict(max_concentration=mc)
            m = ComplexBinghamTrainer(max_concentration=mc).fit(y, saliency=sal)
    except Exception as e:
        if not instr.is_library_exception(e):
            raise
        R.count(f'{fam} trainer raised {type(e).__name__}')
        R.ok('C09.raised')
        return
    R.seen('C09.dist')
    if fam == 'ccsg':
        cov = np.asarray(m.covariance)
        ok = np.isfinite(cov).all()
        R.check('C09.dist', ok, 'domain/nonfinite/ccsg', 'complex Gaussian covariance non-finite', prop='C09')
        if ok:
            asym = float(np.abs(cov - np.swapaxes(cov.conj(), -1, -2)).max())
            R.check('C09.dist', asym <= 1e-10 * (float(np.abs(cov).max()) or 1), 'domain/ccsg/not-hermitian', f'complex Gaussian covariance not Hermitian ({asym:.2e})', prop='C09')
            ev = np.linalg.eigvalsh((cov + np.swapaxes(cov.conj(), -1, -2)) / 2)
            R.check('C09.dist', bool((ev.min(-1) >= -64 * domain.EPS * np.abs(ev).max(-1)).all()), 'domain/ccsg/not-psd', f'complex Gaussian covariance eigenvalue {ev.min():.3e}', prop='C09')
    else:
        domain.check_model(R, m, opts, monitor='C09.dist', where=f'{fam} trainer result')
    if fam == 'cacg':
        # the model of a given class scatter with from_covariance's own default floor (0.0): eigenvalues in [0, 1] - the slightly negative
        # eigenvalues eigh returns for a rank-deficient scatter are clipped (the density of such a model is not asked for here)
        z = oracles_unit(np.asarray(y, dtype=np.complex128))
        Sc = np.einsum('...nd,...nD->...dD', z, z.conj()) / max(1, z.shape[-2])
        try:
            mm = d.ComplexAngularCentralGaussian.from_covariance(Sc, covariance_norm='eigenvalue')
            lam0 = np.asarray(mm.covariance_eigenvalues)
            ok0 = bool(np.isfinite(lam0).all() and (lam0 >= 0).all() and (lam0 <= 1).all())
            R.check('C09.dist', ok0, 'domain/cacg/default-floor-range', f'from_covariance with its default floor: eigenvalues {lam0.min():.3e} .. {lam0.max():.3e} outside [0, 1]', prop='C09')
        except Exception as e:
            if not instr.is_library_exception(e):
                raise
            R.count(f'from_covariance with the default floor raised {type(e).__name__}')
    if case['cls'] in ('zeros', 'dup', 'lowrank', 'short', 'short1') or N <= D or case['saliency'] in ('zeros', 'onehot'):
        R.mark_nontrivial('dist', fam, case['cls'], D, N, case['lead'], case['saliency'])
    R.sample(dict(lane='dist', fam=fam, cls=case['cls'], D=D, N=N, lead=case['lead'], saliency=case['saliency']))

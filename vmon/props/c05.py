"""C05 - mixture training is equivariant under relabelling of the classes."""
import itertools

import numpy as np

from vmon import diff, gen, instr, models, scen

from vmon.scale import S

ID = 'C05'
RULE = ('cases = pairs of fits from (init, init[..., perm, :]) (source-activity mask permuted alike) for all K! permutations '
        '(K <= 4; 30 sampled for K = 5, 6), all seven trainers, all tying options, 1..20 iterations; posteriors (returned and '
        'every in-loop one via the hook), weights and per-class component log-densities on probe points must be permuted '
        'the same way; non-trivial = perm != identity and pairwise different init rows; distinct by (kind, options, K, D, lead, perm)')
DECIDING = ['C05.posterior', 'C05.params', 'C05.trace']
MIN_DECIDED = {'quick': 80, 'thorough': 800}
NEEDS_HOOK = True
CASE_TIMEOUT = {'quick': 300, 'thorough': 900}
ASSUMPTIONS = ['inline aligners and the integration models built-in alignment break ties by class order by design and are covered by C14, not here']


def plan(tier, seed):
    rng = np.random.default_rng([seed, 105])
    n = S(tier, 20, 160)
    pick = lambda xs: xs[int(rng.integers(len(xs)))]
    cases, i = [], 0
    for kind in models.KINDS:
        for r in range((n if kind != 'gmm' else 2 * n) if kind != 'cbmm' else max(3, n // 7)):      # (GMM fits are the cheapest and the only ones with a stopping tolerance attribute)
            K = int(pick([2, 3, 3, 4, 4, 5, 6]))
            D = int(rng.integers(2, 9))
            if kind == 'cbmm':
                K = int(pick([2, 3])); D = int(rng.integers(2, 5))
            lead = [pick([1, 3])] if kind in models.INTEGRATION else (pick([[], [3], [2, 2]]) if kind != 'cbmm' else pick([[], [2]]))
            N = int(rng.integers(3 * K + D, 8 * K + D + 8))
            if r % 4 == 1 and kind != 'cbmm':
                # shape coincidences: a leading axis (or the frame axis) as long as the class axis
                if kind in models.INTEGRATION:
                    lead = [K] if r % 8 == 1 else lead
                    N = K if r % 8 == 5 else N
                else:
                    lead = [K]
            o = scen.sample_opts(rng, kind, lead)
            o.pop('aligner', None)
            if kind in models.INTEGRATION and N == K:
                o['wca'] = [-3]
            if 'inline_permutation_alignment' in o:
                o['inline_permutation_alignment'] = False
            if o.get('saliency') == 'zeros':
                o['saliency'] = 'pos'
            # (half of the fits use most of the 1..20 budget: stopping rules and other iteration-dependent shortcuts only act near convergence)
            iters = int(pick([1, 2, 3, 5, 10, 20, 20, 15, 12, 17, 19, 20])) if kind != 'cbmm' else int(pick([1, 2]))
            ini = pick(['dirichlet:1', 'dirichlet:0.3', 'blur:0.3', 'onehot', 'neardup', 'neardup', 'exactdup', 'uniform', 'planted:0.2', 'planted:0.05', 'planted:0.4', 'partial:bool', 'partial:int', 'partial:float'] + (['planted:0.1', 'planted:0.2', 'planted:0.3', 'planted:0.02'] if kind in ('gmm', 'vmfmm', 'cwmm') else []))
            if kind == 'cbmm' and r % 2:
                ini = 'neardup'; N = int(rng.integers(200, 400)); K = 3
            cases.append(dict(kind=kind, cls='gauss', K=K, N=N, D=D, lead=lead, init=ini,
                              iters=iters, opts=o, rs=[seed, 5, i]))
            i += 1
    return cases


def perms_for(K, rng):
    allp = list(itertools.permutations(range(K)))
    if K <= 4:
        return allp[1:] if K <= 3 else [allp[j] for j in rng.choice(np.arange(1, len(allp)), size=6, replace=False)]
    return [allp[j] for j in rng.choice(np.arange(1, len(allp)), size=4, replace=False)]


def run_case(case, R):
    neardup = case['init'] == 'neardup'
    tied = case['init'] if case['init'] in ('exactdup', 'uniform') else None
    partial = case['init'] if case['init'].startswith('partial') else None
    if neardup or tied:
        case = dict(case, init='dirichlet:1')
    if partial:
        case = dict(case, init='onehot')
    s = scen.build(case)
    if partial and s.init is not None and -1 in s.copts['weight_constant_axis']:
        # (weights pooled over the observations only: with frame-wise weights an unassigned observation has zero prior for every class)
        # a partial labelling: some observations are assigned to no class (an all-zero column), given as label code produces it
        ini = np.array(s.init, dtype=float)
        drop = np.random.default_rng([*case['rs'], 77]).uniform(size=ini.shape[:-2] + (1, ini.shape[-1])) < 0.1
        ini = np.where(drop, 0.0, ini)
        if s.mask is not None:
            ini = np.where(s.mask, ini, 0.0)
        if (ini.sum(-1) > 0).all():            # every class keeps some mass in every slice
            s.init = ini.astype({'partial:bool': bool, 'partial:int': np.int64}.get(partial, float))
    if tied:
        # an exactly tied start sits on an unstable symmetric fixed point of EM: relabelling changes the rounding of class-indexed
        # operations (vectorised kernels treat positions 0/1 and a remainder 2 differently), the first rounding difference between the
        # tied classes breaks the tie and every further iteration amplifies it (x6 per iteration observed, 5e-13 -> 6e-9 within
        # five iterations on the unchanged tree). Replicas that perturb the data keep the tie exact and cannot measure this, so
        # tied starts are followed for three iterations only, where the amplification stays far below the tolerance.
        s.iterations = min(s.iterations, 3)
    if tied and s.init is not None:
        # exactly tied starts (two identical classes / the uniform start): an implementation without a preferred class index keeps the
        # tied classes bit-identical, so permuting them changes nothing - any tie breaking by position shows up only here
        ini = np.array(s.init, dtype=float)
        if tied == 'uniform':
            ini[...] = 1.0 / s.K
        elif s.K >= 2:
            ini[..., 1, :] = ini[..., 0, :]
            ini = ini / ini.sum(-2, keepdims=True)
        if s.mask is not None:
            ini = np.where(s.mask, ini, 0.0)
            tot = ini.sum(-2, keepdims=True)
            ini = ini / np.where(tot > 0, tot, 1.0)
        s.init = ini
    kind = s.kind
    rng = np.random.default_rng([*case['rs'], 55])
    if neardup and s.K >= 2:
        # two classes start almost (not exactly) alike: order-dependent shortcuts (caches keyed by rounded values,
        # tie breaks on the class index) show up only here
        ini = s.init.copy()
        ini[..., 1, :] = ini[..., 0, :] * (1 + float(rng.choice([3e-3, 3e-4])) * rng.uniform(-1, 1, size=ini[..., 0, :].shape))
        s.init = ini / ini.sum(-2, keepdims=True)
    tol_post = 1e-5 if kind == 'cbmm' else 1e-9

    def run(init, mask, fc=None, data=None):
        s2 = scen.Scenario(); s2.__dict__.update(s.__dict__)
        s2.opts = dict(s.opts)
        if data is not None:
            s2.data = data
        if mask is not None:
            s2.opts['source_activity_mask'] = mask
        if fc is not None:
            s2.opts['fixed_covariance'] = fc
        s2.init = init
        co = dict(s.copts); co['mask'] = mask
        with instr.options(**co), instr.capture() as ev:
            model = scen.fit(s2)
            pk = {'source_activity_mask': mask} if (mask is not None and kind == 'cacgmm') else {}
            post = models.predict(kind, model, s2.data, **pk)
        with instr.disarmed():
            lp = models.component_log_pdf(kind, model, s2.data)
            w = np.broadcast_to(models.weight_array(kind, model, s.K), np.broadcast_shapes(models.weight_array(kind, model, s.K).shape, lp.shape[:-1] + (1,)))
        return post, lp, w, ev

    try:
        base = run(s.init, s.mask)
    except Exception as e:
        if not instr.is_library_exception(e):
            raise
        R.count(f'base fit raised {type(e).__name__}')
        R.undecided('C05.posterior', 'base fit raised')
        return

    def noise_fn(reps=range(3)):
        nz = dict(post=0.0, lp=0.0, w=0.0, trace=0.0)
        for rep in reps:
            rr = np.random.default_rng([*case['rs'], 8, rep])
            dd = dict(s.data)
            dd['y'] = s.data['y'] * (1 + 2.0 ** -50 * rr.uniform(-1, 1, size=s.data['y'].shape))
            if 'e' in dd:
                dd['e'] = s.data['e'] * (1 + 2.0 ** -50 * rr.uniform(-1, 1, size=s.data['e'].shape))
            out = run(s.init, s.mask, data=dd)
            for a, b in zip(out[3][1:], base[3][1:]):
                nz['trace'] = max(nz['trace'], float(np.abs(a['affiliation'] - b['affiliation']).max()))
            nz['post'] = max(nz['post'], float(np.abs(out[0] - base[0]).max()))
            nz['lp'] = max(nz['lp'], float(np.abs(out[1] - base[1]).max()))
            nz['w'] = max(nz['w'], float(np.abs(out[2] - base[2]).max()))
        if tied and s.init is not None:
            # how fast does this fit drive two almost tied classes apart? Two runs whose tie is broken at the rounding level in two
            # different ways are compared WITH EACH OTHER (never with the tied base run: a tie break by class position acts on exactly
            # tied rows only, both of these runs are free of it and so measure the instability of the unchanged algorithm alone)
            pair = []
            for rep in list(reps)[:2 if len(reps) <= 3 else 6]:
                rr = np.random.default_rng([*case['rs'], 9, rep])
                ini = np.array(s.init, dtype=float)
                ini = ini * (1 + 2.0 ** -50 * rr.uniform(-1, 1, size=ini.shape))
                tot = ini.sum(-2, keepdims=True)
                pair.append(run(ini / np.where(tot > 0, tot, 1.0), s.mask))
            for other in pair[1:]:
                for a, b in zip(pair[0][3][1:], other[3][1:]):
                    nz['trace'] = max(nz['trace'], float(np.abs(a['affiliation'] - b['affiliation']).max()))
                for j, k in enumerate(('post', 'lp', 'w')):
                    nz[k] = max(nz[k], float(np.abs(pair[0][j] - other[j]).max()))
        return nz

    judge = diff.Judge(R, noise_fn)
    rows_distinct = all(not np.array_equal(s.init[..., a, :], s.init[..., b, :]) for a in range(s.K) for b in range(a))
    for perm in perms_for(s.K, rng):
        p = list(perm)
        init_p = s.init[..., p, :]
        mask_p = s.mask[..., p, :] if s.mask is not None else None
        fc = s.opts.get('fixed_covariance')
        fc_p = None
        if fc is not None:
            cax = 0 if kind in models.INTEGRATION else len(s.lead)
            fc_p = np.take(fc, p, axis=cax)
        try:
            got = run(init_p, mask_p, fc_p)
        except Exception as e:
            if not instr.is_library_exception(e):
                raise
            rounding_level = False
            if isinstance(e, AssertionError):
                import re
                vals = [float(v) for v in re.findall(r'[-+]?\d+\.?\d*(?:[eE][-+]?\d+)?', str(e))]
                rounding_level = bool(vals) and min(abs(v) for v in vals) < 1e-12 and max(abs(v) for v in vals) <= 1.0 + 1e-9       # scatter eigenvalues, one of them 0 up to rounding
            if 'ill-defined empirical covariance' in str(e) or isinstance(e, np.linalg.LinAlgError) or rounding_level:
                # numerically singular class covariance: whether the Cholesky factorisation fails is decided by rounding
                R.undecided('C05.posterior', 'numerically singular covariance (raise decided by rounding)')
                continue
            R.fail('C05.posterior', f'raise-asymmetry/{kind}', f'{kind}: fit from the relabelled start raised {type(e).__name__}: {str(e)[:100]} while the original did not', perm=p)
            continue
        dev = float(np.abs(got[0] - base[0][..., p, :]).max())
        judge('C05.posterior', dev, tol_post, 'post', f'posterior/{kind}', f'{kind}: posterior of the relabelled fit is not the relabelled posterior (max dev {dev:.3e}, perm {p})',
              dev=dev, perm=p, opts=case['opts'])
        dlp = float(np.abs(got[1] - base[1][..., p, :]).max())
        scale = 1 + float(np.abs(base[1]).max())
        judge('C05.params', dlp, (1e-4 if kind == 'cbmm' else 1e-8) * scale, 'lp', f'component/{kind}', f'{kind}: per-class component log-densities not permuted with the start (max dev {dlp:.3e}, perm {p})',
              dev=dlp, perm=p, opts=case['opts'])
        dw = float(np.abs(got[2] - base[2][..., p, :]).max())
        judge('C05.params', dw, tol_post, 'w', f'weight/{kind}', f'{kind}: mixture weights not permuted with the start (max dev {dw:.3e}, perm {p})', dev=dw, perm=p, opts=case['opts'])
        for a, b in zip(got[3][1:], base[3][1:]):
            dv = float(np.abs(a['affiliation'] - b['affiliation'][..., p, :]).max())
            judge('C05.trace', dv, tol_post * 10, 'trace', f'trace/{kind}', f'{kind}: in-loop posterior of iteration {a["iteration"]} not permuted with the start (dev {dv:.3e})', dev=dv, perm=p)
        if rows_distinct:
            R.mark_nontrivial(kind, case['opts'], s.K, s.D, case['lead'], p)
    R.sample(dict(kind=kind, K=s.K, D=s.D, lead=case['lead'], iters=s.iterations, opts=case['opts'], init=case['init']))

"""Adapter table for the seven mixture models: how to build data, call the real trainer, and
read the fitted model through its public fields only (DESIGN appendix 12)."""
import numpy as np

from vmon import gen, oracles

KINDS = ('cacgmm', 'cwmm', 'cbmm', 'gmm', 'vmfmm', 'gcacgmm', 'vmfcacgmm')
COMPLEX = ('cacgmm', 'cwmm', 'cbmm')
REAL = ('gmm', 'vmfmm')
INTEGRATION = ('gcacgmm', 'vmfcacgmm')


def trainer(kind, **init_kwargs):
    from pb_bss import distribution as d
    cls = dict(cacgmm=d.CACGMMTrainer, cwmm=d.CWMMTrainer, cbmm=d.CBMMTrainer, gmm=d.GMMTrainer,
               vmfmm=d.VMFMMTrainer, gcacgmm=d.GCACGMMTrainer, vmfcacgmm=d.VMFCACGMMTrainer)[kind]
    return cls(**init_kwargs)


def component(model, kind):
    return dict(cacgmm='cacg', cwmm='complex_watson', cbmm='complex_bingham', gmm='gaussian',
                vmfmm='vmf')[kind]


def data_args(kind, data):
    """positional/keyword data arguments of fit/predict for a data dict."""
    if kind in INTEGRATION:
        return dict(observation=data['y'], embedding=data['e'])
    return dict(y=data['y'])


def fit(kind, data, init=None, num_classes=None, iterations=3, tkw=None, **opts):
    tr = trainer(kind, **(tkw or {}))
    kw = dict(initialization=init, num_classes=num_classes, iterations=iterations, **opts)
    return tr.fit(**data_args(kind, data), **kw)


def fit_predict(kind, data, init=None, num_classes=None, iterations=3, tkw=None, **opts):
    tr = trainer(kind, **(tkw or {}))
    kw = dict(initialization=init, num_classes=num_classes, iterations=iterations, **opts)
    return tr.fit_predict(**data_args(kind, data), **kw)


def predict(kind, model, data, **kw):
    if kind in INTEGRATION:
        return model.predict(observation=data['y'], embedding=data['e'], **kw)
    if kind == 'gmm':
        return model.predict(data['y'], **kw)
    return model.predict(data['y'], **kw)


# ---------------------------------------------------------------------------
# reading the model through public fields
# ---------------------------------------------------------------------------

def component_log_pdf(kind, model, data):
    """(..., K, N) log densities as reported by the component distribution objects' public
    log_pdf (the p_k of the C01 statement)."""
    y = data['y']
    if kind == 'cacgmm':
        return model.cacg.log_pdf(y[..., None, :, :])
    if kind == 'cwmm':
        return model.complex_watson.log_pdf(oracles.unit(y)[..., None, :, :])
    if kind == 'cbmm':
        return model.complex_bingham.log_pdf(oracles.unit(y)[..., None, :, :])
    if kind == 'gmm':
        return model.gaussian.log_pdf(y[..., None, :, :])
    if kind == 'vmfmm':
        return model.vmf.log_pdf(y[..., None, :, :])
    F, T, D = y.shape
    e = data['e']
    E = e.shape[-1]
    spatial = model.cacg.log_pdf(y[..., None, :, :])            # (F, K, T)
    comp = model.gaussian if kind == 'gcacgmm' else model.vmf
    sp = comp.log_pdf(e.reshape(1, F * T, E))                   # (K, F*T)
    K = sp.shape[0]
    spectral = np.transpose(sp.reshape(K, F, T), (1, 0, 2))
    return model.spatial_weight * spatial + model.spectral_weight * spectral


def stream_log_pdfs(kind, model, data):
    """(spatial, spectral) log densities (F, K, T) of an integration model, each already multiplied by its stream weight."""
    y = data['y']
    F, T, D = y.shape
    e = data['e']
    E = e.shape[-1]
    spatial = model.cacg.log_pdf(y[..., None, :, :])
    comp = model.gaussian if kind == 'gcacgmm' else model.vmf
    sp = comp.log_pdf(e.reshape(1, F * T, E))
    K = sp.shape[0]
    spectral = np.transpose(sp.reshape(K, F, T), (1, 0, 2))
    return model.spatial_weight * spatial, model.spectral_weight * spectral


def independent_component_log_pdf(kind, model, data):
    """Same quantity from the monitor's own density formulas (used where the component's own
    log_pdf is the thing in question)."""
    y = data['y']
    if kind in ('cacgmm', 'gcacgmm', 'vmfcacgmm'):
        B = cacg_covariance(model.cacg)
        spatial = oracles.cacg_log_pdf(y[..., None, :, :], B)
        if kind == 'cacgmm':
            return spatial
        raise NotImplementedError
    if kind == 'cwmm':
        w = model.complex_watson
        return oracles.watson_log_pdf(oracles.unit(y)[..., None, :, :], w.mode, w.concentration)
    raise NotImplementedError(kind)


def cacg_covariance(cacg):
    U = np.asarray(cacg.covariance_eigenvectors)
    lam = np.asarray(cacg.covariance_eigenvalues)
    return np.einsum('...ab,...b,...cb->...ac', U, lam, U.conj())


def log_weight(kind, model, K):
    """log of the stored mixture weights, shaped to broadcast against (..., K, N)."""
    w = np.asarray(model.weight, dtype=np.float64)
    if kind in INTEGRATION:
        axes = tuple(model.weight_constant_axis)
        if -2 in axes:
            w = np.full((1, K, 1), float(w))
        else:
            w = oracles.unsqueeze(w, axes, ndim=3)
    with np.errstate(divide='ignore'):
        return np.log(w)


def weight_array(kind, model, K):
    with np.errstate(over='ignore'):
        return np.exp(log_weight(kind, model, K))


def num_classes(kind, model):
    if kind in ('cacgmm', 'gcacgmm', 'vmfcacgmm'):
        return np.asarray(model.cacg.covariance_eigenvalues).shape[-2]
    if kind == 'cwmm':
        return np.asarray(model.complex_watson.concentration).shape[-1]
    if kind == 'cbmm':
        return np.asarray(model.complex_bingham.covariance_eigenvalues).shape[-2]
    if kind == 'gmm':
        return np.asarray(model.gaussian.mean).shape[-2]
    if kind == 'vmfmm':
        return np.asarray(model.vmf.mean).shape[-2]


def bayes_posterior(kind, model, data, mask=None, eps=0.0):
    lp = component_log_pdf(kind, model, data)
    K = lp.shape[-2]
    g = oracles.log_softmax_posterior(log_weight(kind, model, K), lp, mask)
    if eps:
        g = np.clip(g, eps, 1 - eps)
    return g


def model_arrays(model, prefix=''):
    """Flatten a (nested) model dataclass into {dotted name: ndarray/scalar}."""
    out = {}
    for k in model.__dataclass_fields__:
        v = getattr(model, k)
        if hasattr(v, '__dataclass_fields__'):
            out.update(model_arrays(v, prefix + k + '.'))
        else:
            out[prefix + k] = v
    return out


# ---------------------------------------------------------------------------
# data
# ---------------------------------------------------------------------------

def make_data(rng, kind, lead, K, N, D, cls='gauss', dtype=None, E=None, spread=3.0, offset=0.0):
    """Observation dict for a model kind. For integration models lead must be (F,) and N = T."""
    if kind in COMPLEX:
        dt = dtype or np.complex128
        y, lab = gen.planted_cmixture(rng, lead, K, N, D, dtype=dt)
        y = gen.hostile(rng, y, cls)
        return dict(y=y, lab=lab)
    if kind in REAL:
        dt = dtype or np.float64
        y, lab = gen.planted_rmixture(rng, lead, K, N, D, dtype=dt, spread=spread)
        y = gen.hostile(rng, y, cls, real=True)
        if offset:
            # data far from the origin relative to its spread (|mean|/std = offset): exposes cancellation in E[y^2] - mean^2 rewrites
            # (per independent slice: hostile classes give the slices very different scales, and an offset of 1e6 global standard
            # deviations would put a quiet slice beyond the resolution of its own dtype)
            y = (y + offset * np.std(y, axis=(-2, -1), keepdims=True) * oracles.unit(rng.standard_normal((1,) * (y.ndim - 1) + (D,)))).astype(y.dtype)
        return dict(y=y, lab=lab)
    # integration: same labels for both streams
    F, = lead
    E = E or 3
    dt = dtype or np.complex128
    y, lab = gen.planted_cmixture(rng, lead, K, N, D, dtype=dt)
    means = rng.standard_normal((K, E)) * spread
    e = means[lab] + 0.5 * rng.standard_normal((F, N, E))
    if offset:
        e = e + offset * float(np.std(e)) * oracles.unit(rng.standard_normal((1, 1, E)))
    if cls == 'outlier':
        e = gen.hostile(rng, e, 'outlier', real=True)      # far embeddings; the spatial stream stays benign
    else:
        y = gen.hostile(rng, y, cls)
    return dict(y=y, e=e.astype(np.float32 if dt == np.complex64 else np.float64), lab=lab)

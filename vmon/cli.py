import argparse
import os
import sys

from vmon import runner


def main():
    ap = argparse.ArgumentParser(prog='check')
    ap.add_argument('prop')
    ap.add_argument('--tier', default=os.environ.get('VERIF_TIER', 'quick'), choices=['quick', 'thorough'])
    ap.add_argument('--seed', type=int, default=int(os.environ.get('VERIF_SEED', '0')))
    ap.add_argument('--replay', default=None)
    ap.add_argument('--jobs', type=int, default=int(os.environ.get('VERIF_JOBS', '16')))
    a = ap.parse_args()
    sys.exit(runner.run(a.prop.upper(), a.tier, a.seed, a.replay, a.jobs))


if __name__ == '__main__':
    main()

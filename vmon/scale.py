"""Workload budgets. Case counts written in the property modules are base numbers; the tier factor scales them so
that a quick run takes about 10-30 s and a thorough run several minutes on 16 cores."""
import os

FACTOR = {'quick': float(os.environ.get('VERIF_QUICK_FACTOR', '5')), 'thorough': float(os.environ.get('VERIF_THOROUGH_FACTOR', '6'))}


def S(tier, quick, thorough):
    base = quick if tier == 'quick' else thorough
    return max(1, int(round(base * FACTOR[tier])))

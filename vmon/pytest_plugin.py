"""pytest plugin: runs the repository's own tests with the always-armed contracts (C01.M1 on the posterior routine,
C14 on the assignment / apply_mapping functions, C01.M4 + C09 finite-field checks on every hook event) observing.
Contracts only observe; results are dumped as JSON to $VMON_SUITE_OUT at session end (DESIGN 5.4)."""
import json
import os

_state = {}


def pytest_configure(config):
    import warnings
    warnings.filterwarnings('ignore')
    from vmon import instr
    from vmon.rec import Recorder

    class Mod:
        ARM = ('C01', 'C09', 'C14')
        REACH = False

    import pb_bss.distribution  # noqa: make sure every module that binds the wrapped functions is loaded first
    import pb_bss.permutation_alignment  # noqa
    R = Recorder(os.environ.get('VMON_SUITE_PROP', 'C01'))
    R.begin_case({'lane': 'suite', 'test': 'collection'})
    _state['R'] = R
    _state['ctx'] = instr.install(R, Mod)


def pytest_runtest_setup(item):
    R = _state.get('R')
    if R is not None:
        R.end_case()
        R.begin_case({'lane': 'suite', 'test': item.nodeid})
        R.count('tests observed')


def pytest_sessionfinish(session, exitstatus):
    R = _state.get('R')
    out = os.environ.get('VMON_SUITE_OUT')
    if R is None or not out:
        return
    from vmon import instr
    d = R.dump()
    d['instr'] = instr.report(_state['ctx'])
    with open(out, 'w') as f:
        json.dump(d, f)

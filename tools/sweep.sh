#!/bin/bash
# tools/sweep.sh <tier> <seeds...>  : all 20 checks for each seed, compact output (for vp run / background use)
TIER=$1; shift
for s in "$@"; do
  for p in C01 C02 C03 C04 C05 C06 C07 C08 C09 C10 C11 C12 C13 C14 C15 C16 C17 C18 C19 C20; do
    VERIF_NO_EVIDENCE=1 ./check $p --tier $TIER --seed $s 2>&1 | grep -E "^\[$p\] tier|VIOLATION|INCONCLUSIVE|HARNESS-ERROR" | cut -c1-280 | head -6
  done
done

#!/bin/bash
# tools/mutant.sh <file-relative-to-repo> <python-expr old=>new as two args> <check ids...>
# Applies a textual replacement in a scratch copy of /repo/pb_bss and runs the given checks on it.
# usage: tools/mutant.sh pb_bss/distribution/x.py 'old text' 'new text' C02 C08
FILE=$1; OLD=$2; NEW=$3; shift 3
M=$(mktemp -d /tmp/mut.XXXXXX)
cp -r /repo/pb_bss "$M/pb_bss"
/venv/bin/python - "$M/$FILE" "$OLD" "$NEW" <<'PY'
import sys
p, old, new = sys.argv[1:4]
s = open(p).read()
assert s.count(old) >= 1, 'pattern not found'
open(p, 'w').write(s.replace(old, new, 1))
PY
[ $? -ne 0 ] && { rm -rf "$M"; exit 2; }
for c in "$@"; do
  VERIF_REPO=$M /verif/check $c --tier ${TIER:-quick} 2>&1 | grep -E "VIOLATION|HELD|INCONCLUSIVE|HARNESS" | cut -c1-260 | head -${LINES_MAX:-4}
done
rm -rf "$M"
git -C /verif checkout -- evidence 2>/dev/null

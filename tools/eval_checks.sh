#!/bin/bash
# tools/eval_checks.sh <dir with patch.diff> <label>: which quick checks fire (exit 1) on /repo HEAD + patch?
# own check first; all others only if the own check stays silent. One line of output. Scratch worktree under /tmp, removed.
d=$1; id=$2; own=${id%%-*}
W=$(mktemp -d /tmp/evalchk_XXXXXX); rmdir $W
git -C /repo worktree add -q --detach $W HEAD || { echo "$id WORKTREE-FAIL"; exit; }
git -C $W apply $d/patch.diff 2>/dev/null || { echo "$id APPLY-FAIL"; git -C /repo worktree remove --force $W; exit; }
cd ${VDIR:-/verif}
out=$(VERIF_REPO=$W VERIF_NO_EVIDENCE=1 ./check $own --tier quick 2>&1); rc=$?
keys=$(echo "$out" | grep -o "^VIOLATION property=C[0-9]* .* key=[^ ]*" | sed -E 's/.*property=(C[0-9]+).*key=([^ ]+)/\1:\2/' | sort -u | head -3 | tr '\n' ' ')
others=""
if [ $rc -ne 1 ]; then
  for c in C01 C02 C03 C04 C05 C06 C07 C08 C09 C10 C11 C12 C13 C14 C15 C16 C17 C18 C19 C20; do
    [ $c = $own ] && continue
    VERIF_REPO=$W VERIF_NO_EVIDENCE=1 ./check $c --tier quick >/dev/null 2>&1; [ $? -eq 1 ] && others="$others $c"
  done
fi
git -C /repo worktree remove --force $W
echo "$id own_rc=$rc keys=[$keys] others=[$others]"

#!/venv/bin/python
"""Self-validation: every change under /verif/seeded must be detected (exit 1) by the check recorded in its meta.json
(`detected_by`, first entry = the property's own check where it applies). Scratch worktrees live under /tmp and are removed.
usage: tools/selftest_seeded.py [--tier quick] [ids...]"""
import glob
import json
import os
import re
import subprocess
import sys
import tempfile

ROOT = os.path.dirname(os.path.dirname(os.path.abspath(__file__)))


def main():
    ids = [a for a in sys.argv[1:] if not a.startswith('--')]
    dirs = sorted(glob.glob(os.path.join(ROOT, 'seeded', 'C*-*m*')))
    if ids:
        dirs = [d for d in dirs if os.path.basename(d) in ids]
    bad = 0
    for d in dirs:
        meta = json.load(open(os.path.join(d, 'meta.json')))
        own = meta['breaks_property']
        others = [c for c in ((meta.get('detected_by') or []) + ((meta.get('first_evaluation') or {}).get('caught_by') or [])) if c != own]
        others = list(dict.fromkeys(others))
        wt = tempfile.mkdtemp(prefix='selftest_', dir='/tmp')
        os.rmdir(wt)
        try:
            subprocess.run(['git', '-C', '/repo', 'worktree', 'add', '-q', '--detach', wt, 'HEAD'], check=True)
            a = subprocess.run(['git', '-C', wt, 'apply', os.path.join(d, 'patch.diff')], capture_output=True, text=True)
            if a.returncode:
                print(f'{os.path.basename(d)}: PATCH DOES NOT APPLY'); bad += 1; continue
            env = dict(os.environ, VERIF_REPO=wt, VERIF_NO_EVIDENCE='1')
            hits, keys_all, first = [], [], ''
            for target in [own] + others:
                r = subprocess.run([os.path.join(ROOT, 'check'), target, '--tier', 'quick'], capture_output=True, text=True, env=env, cwd=ROOT)
                if r.returncode == 1:
                    hits.append(target)
                    first = first or next((l for l in r.stdout.splitlines() if l.startswith('VIOLATION')), '')[:160]
                    keys_all += sorted(set(re.findall(r'VIOLATION property=(C\d+) .*? key=(\S+)', r.stdout)))
                    if target == own:
                        break           # the property's own check fires: no need to ask the others
            ok = bool(hits)
            if '--write' in sys.argv:
                meta['detected_by_target_check'] = own in hits
                if ok:
                    meta['detected_by'] = hits if own in hits else sorted(set(hits))
                    meta['first_violation_keys'] = [f'{p}:{k}' for p, k in keys_all][:3]
                json.dump(meta, open(os.path.join(d, 'meta.json'), 'w'), indent=1)
            print(f'{os.path.basename(d)}: {"DETECTED by " + ",".join(hits) if ok else "MISSED by " + ",".join([own] + others)} {first}', flush=True)
            bad += not ok
        finally:
            subprocess.run(['git', '-C', '/repo', 'worktree', 'remove', '--force', wt], capture_output=True)
    print(f'{len(dirs) - bad} of {len(dirs)} seeded changes detected')
    return 1 if bad else 0


if __name__ == '__main__':
    sys.exit(main())

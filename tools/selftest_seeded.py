#!/venv/bin/python
"""Self-validation: every change under /verif/seeded must be detected (exit 1) by the check recorded in its meta.json
(`detected_by`, first entry = the property's own check where it applies). Scratch worktrees live under /tmp and are removed.
usage: tools/selftest_seeded.py [--tier quick] [ids...]"""
import glob
import json
import os
import subprocess
import sys
import tempfile

ROOT = os.path.dirname(os.path.dirname(os.path.abspath(__file__)))


def main():
    ids = [a for a in sys.argv[1:] if not a.startswith('--')]
    dirs = sorted(glob.glob(os.path.join(ROOT, 'seeded', 'C*-*m*')))
    if ids:
        dirs = [d for d in dirs if os.path.basename(d) in ids]
    bad = 0
    for d in dirs:
        meta = json.load(open(os.path.join(d, 'meta.json')))
        target = meta['breaks_property'] if meta.get('detected_by_target_check', True) else (meta.get('detected_by') or [meta['breaks_property']])[0]
        wt = tempfile.mkdtemp(prefix='selftest_', dir='/tmp')
        os.rmdir(wt)
        try:
            subprocess.run(['git', '-C', '/repo', 'worktree', 'add', '-q', '--detach', wt, 'HEAD'], check=True)
            a = subprocess.run(['git', '-C', wt, 'apply', os.path.join(d, 'patch.diff')], capture_output=True, text=True)
            if a.returncode:
                print(f'{os.path.basename(d)}: PATCH DOES NOT APPLY'); bad += 1; continue
            env = dict(os.environ, VERIF_REPO=wt, VERIF_NO_EVIDENCE='1')
            r = subprocess.run([os.path.join(ROOT, 'check'), target, '--tier', 'quick'], capture_output=True, text=True, env=env, cwd=ROOT)
            ok = r.returncode == 1
            first = next((l for l in r.stdout.splitlines() if l.startswith('VIOLATION')), '')[:160]
            if '--write' in sys.argv:
                import re
                keys = sorted(set(re.findall(r'VIOLATION property=(C\d+) .*? key=(\S+)', r.stdout)))
                if target == meta['breaks_property']:
                    meta['detected_by_target_check'] = bool(ok)
                if ok:
                    meta['detected_by'] = sorted(set((meta.get('detected_by') or []) + [target]))
                    meta['first_violation_keys'] = [f'{p}:{k}' for p, k in keys][:3]
                json.dump(meta, open(os.path.join(d, 'meta.json'), 'w'), indent=1)
            print(f'{os.path.basename(d)}: {"DETECTED" if ok else "MISSED"} by {target} (exit {r.returncode}) {first}', flush=True)
            bad += not ok
        finally:
            subprocess.run(['git', '-C', '/repo', 'worktree', 'remove', '--force', wt], capture_output=True)
    print(f'{len(dirs) - bad} of {len(dirs)} seeded changes detected')
    return 1 if bad else 0


if __name__ == '__main__':
    sys.exit(main())

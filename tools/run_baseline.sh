#!/bin/bash
# Runs the pinned suite of /repo (guard OFF) and compares with BASELINE.json stable_pass.
# usage: tools/run_baseline.sh [repo_dir]
REPO=${1:-/repo}
OUT=$(mktemp -d /tmp/pbbss_base.XXXXXX)
cd "$REPO" || exit 2
env -u PB_BSS_VERIF /venv/bin/python -m pytest -ra -q -p no:cacheprovider --timeout=900 \
  --continue-on-collection-errors -o addopts="--doctest-modules --doctest-continue-on-failure" \
  --junitxml="$OUT/j.xml" > "$OUT/log.txt" 2>&1
tail -3 "$OUT/log.txt"
/venv/bin/python - "$OUT/j.xml" <<'PY'
import sys, json, xml.etree.ElementTree as ET
base = json.load(open('/root/.vp/BASELINE.json'))
want = set(base['stable_pass'])
got = set()
for tc in ET.parse(sys.argv[1]).getroot().iter('testcase'):
    ok = not any(c.tag in ('failure', 'error', 'skipped') for c in tc)
    if ok:
        got.add(f"{tc.get('classname')}::{tc.get('name')}")
missing = sorted(want - got)
print(f"stable_pass={len(want)} passing_now={len(got)} missing={len(missing)}")
for m in missing[:40]:
    print("  MISSING", m)
sys.exit(1 if missing else 0)
PY
rc=$?
rm -rf "$OUT" "$REPO/junit"
exit $rc

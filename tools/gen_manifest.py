#!/venv/bin/python
"""Regenerates MANIFEST.json from the property modules present in vmon/props."""
import importlib
import json
import os
import subprocess
import sys

ROOT = os.path.dirname(os.path.dirname(os.path.abspath(__file__)))
sys.path.insert(0, ROOT)
sys.path.insert(0, '/repo')
props = [json.loads(l) for l in open(os.path.join(ROOT, 'properties.jsonl'))]
hook_commits = subprocess.run(['git', '-C', '/repo', 'log', '--format=%H %s'], capture_output=True, text=True).stdout.splitlines()
hook_commits = [l.split()[0] for l in hook_commits if l.split(' ', 1)[1].startswith('verif:')]

checks, na = [], []
for p in props:
    pid = p['id']
    path = os.path.join(ROOT, 'vmon', 'props', pid.lower() + '.py')
    if not os.path.exists(path):
        na.append(dict(property_id=pid, reason='check not built yet in this round (planned in DESIGN.md section 7); not a statement about applicability of the technique'))
        continue
    mod = importlib.import_module('vmon.props.' + pid.lower())
    checks.append(dict(
        property_id=pid,
        quick_cmd=f'./check {pid} --tier quick',
        thorough_cmd=f'./check {pid} --tier thorough',
        evidence_file=f'evidence/{pid}.json',
        replay_cmd_template=f'./check {pid} --replay {{path}}',
        engine='vmon',
        level_claimed=dict(
            category='exploration',
            text=getattr(mod, 'LEVEL_TEXT', 'Randomised runtime monitoring: oracles and contracts observe executions of the real code over hostile input and configuration classes; holds on the executions observed, nothing more.'),
            design_ref=f'DESIGN.md section 7 ({pid})'),
        level_note='; '.join(getattr(mod, 'ASSUMPTIONS', [])) or 'NumPy/SciPy reference routines are trusted',
        technique=getattr(mod, 'TECHNIQUE', 'runtime monitoring: contract and reference-model monitors on observed executions'),
    ))

manifest = dict(
    version=1,
    setup_cmd='/venv/bin/python -B -c "import sys; sys.path.insert(0, \'/verif\'); import vmon.runner, vmon.worker, vmon.instr, vmon.contracts, vmon.oracles"',
    hooks=dict(
        guard='PB_BSS_VERIF',
        enable='environment variable PB_BSS_VERIF=1, read once when pb_bss/_verif.py is imported (pure Python, nothing to build); the checks set it for their worker processes',
        baseline_off_cmd='cd /repo && env -u PB_BSS_VERIF /venv/bin/python -m pytest -ra -q -p no:cacheprovider --timeout=900 --continue-on-collection-errors --junitxml=/tmp/pb_bss_baseline_off.junit.xml',
        source_commits=hook_commits,
        add_only=True,
    ),
    engines=[dict(name='vmon', path='vmon/', serves_properties=[c['property_id'] for c in checks],
                  kind_free_text='Python runtime-monitoring harness: worker subprocesses import pb_bss from /repo, arm contract wrappers, the PB_BSS_VERIF iteration-trace subscriber, FP and reach monitors, run seeded hostile workloads, and a parent merges three-valued verdicts into evidence')],
    checks=checks,
    notes='exit 0 held / 1 violation (VIOLATION lines) / 2 inconclusive (INCONCLUSIVE line, never on the unchanged tree). VERIF_SEED and VERIF_TIER are honoured. Known findings and fixed defects: known_findings.json.',
    not_applicable=na,
)
json.dump(manifest, open(os.path.join(ROOT, 'MANIFEST.json'), 'w'), indent=1)
print(f'{len(checks)} checks, {len(na)} not yet claimed')

#!/venv/bin/python
"""tools/eval_seeded.py <dir with patch.diff, demo.py, meta.json> ...
Validates a seeded change (applies to a scratch worktree of /repo HEAD, pinned suite unchanged, demo passes on the original and
fails on the change) and runs the checks against it. Prints one line per change."""
import json
import os
import re
import shutil
import subprocess
import sys
import tempfile

ROOT = os.path.dirname(os.path.dirname(os.path.abspath(__file__)))
ALL = [f'C{i:02d}' for i in range(1, 21)]


def sh(cmd, **kw):
    return subprocess.run(cmd, shell=True, capture_output=True, text=True, **kw)


def run_check(cid, repo, tier='quick', seed=0):
    env = dict(os.environ, VERIF_REPO=repo, VERIF_NO_EVIDENCE='1')
    r = subprocess.run([os.path.join(ROOT, 'check'), cid, '--tier', tier, '--seed', str(seed)], capture_output=True, text=True, env=env, cwd=ROOT)
    viol = sorted(set(re.findall(r'VIOLATION property=(C\d+) .*? key=(\S+)', r.stdout)))
    return r.returncode, viol, r.stdout


def main():
    full = '--all' in sys.argv
    dirs = [a for a in sys.argv[1:] if not a.startswith('--')]
    for d in dirs:
        d = os.path.abspath(d)
        meta = json.load(open(os.path.join(d, 'meta.json'))) if os.path.exists(os.path.join(d, 'meta.json')) else {}
        prop = meta.get('property') or re.search(r'(C\d\d)', d).group(1)
        wt = tempfile.mkdtemp(prefix='val_', dir='/tmp')
        os.rmdir(wt)
        out = dict(dir=d, prop=prop)
        try:
            assert sh(f'git -C /repo worktree add -q --detach {wt} HEAD').returncode == 0
            a = sh(f'git -C {wt} apply {d}/patch.diff')
            if a.returncode != 0:
                a = sh(f'git -C {wt} apply -3 {d}/patch.diff')
            out['applies'] = a.returncode == 0
            if not out['applies']:
                out['apply_err'] = a.stderr[-300:]
                print(json.dumps(out)); continue
            out['files'] = sh(f'git -C {wt} diff --name-only').stdout.split()
            o = sh(f'PYTHONPATH=/repo /venv/bin/python -W ignore {d}/demo.py', cwd='/tmp', timeout=900)
            m = sh(f'PYTHONPATH={wt} /venv/bin/python -W ignore {d}/demo.py', cwd='/tmp', timeout=900)
            out['demo_orig_rc'], out['demo_mut_rc'] = o.returncode, m.returncode
            b = sh(f'{ROOT}/tools/run_baseline.sh {wt}')
            out['suite'] = (re.search(r'stable_pass=\d+ passing_now=\d+ missing=\d+', b.stdout) or [''])[0] if b.stdout else ''
            rc, viol, _ = run_check(prop, wt)
            out['target_rc'], out['target_keys'] = rc, [f'{p}:{k}' for p, k in viol][:4]
            caught_by = [prop] if rc == 1 else []
            if rc != 1 or full:
                for c in ALL:
                    if c == prop:
                        continue
                    rc2, v2, _ = run_check(c, wt)
                    if rc2 == 1:
                        caught_by.append(c)
            out['caught_by'] = caught_by
        finally:
            sh(f'git -C /repo worktree remove --force {wt}')
            shutil.rmtree(wt, ignore_errors=True)
        print(json.dumps(out), flush=True)


if __name__ == '__main__':
    main()

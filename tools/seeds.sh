#!/bin/bash
# tools/seeds.sh <ID> <tier> seeds...   -- compact multi-seed run
ID=$1; TIER=$2; shift 2
for s in "$@"; do
  VMON_MAXV=${VMON_MAXV:-3} /verif/check $ID --tier $TIER --seed $s 2>&1 | grep -E "^\[$ID\] tier|VIOLATION|INCONCLUSIVE|HARNESS-ERROR|Error" | cut -c1-${W:-260} | head -${H:-8}
done
